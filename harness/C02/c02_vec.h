// c02_vec.h — igris::vector against std::vector, one operation at a time.
// Compiled twice: against igris/container/vector.h and (with -DC02_PORTABLE) against the igris::vector
// twin inside igris/container/std_portable.h. The two headers redefine the same names (igris::vector,
// igris::move, igris::constructor ...), so each lives in a binary of its own; std_portable.h does
// compile next to the host libstdc++. One TU per element type so that a unit compiles in parallel.
//
// Reference: a std::vector<int> of element ids driven by the same operation; after EVERY
// operation the whole observable state is compared, the lifetime registry of vf::Tracked
// is consulted, and the number of live Tracked objects is compared with what the model
// says must be alive (so a missing destruction is attributed to the operation that lost it).
#pragma once
#include <cassert> // before vf.h: vf.h defines __assert_fail and must see the libc declaration first
#include "tracked.h"
#include "vf.h"
#ifdef C02_PORTABLE
#include <igris/container/std_portable.h>
// erase(first,last) of the twin calls a three-argument igris::move; it only instantiates where that exists
template <class P> constexpr bool c02_has_move3 = requires(P p) { igris::move(p, p, p); };
struct Fam
{
    static constexpr const char *name = "portable.vector"; // flavour tag used in keys
    template <class T> static constexpr bool range_erase = c02_has_move3<T *>;
    static constexpr bool std_iters = false; // igris::distance dispatches on igris' own iterator tags
};
#else
#include <igris/container/vector.h>
struct Fam
{
    static constexpr const char *name = "vector";
    template <class T> static constexpr bool range_erase = true;
    static constexpr bool std_iters = true; // the (I first, O last) constructor accepts host iterators
};
#endif
#include <algorithm>
#include <list>
#include <stdexcept>
#include <string>
#include <type_traits>
#include <vector>

namespace c02
{
    using vf::Tracked;

    // ------------------------------------------------------------ element types
    template <class T> struct El;
    template <> struct El<int>
    {
        static constexpr const char *name = "int";
        static constexpr bool tracked = false;
        static constexpr int default_id = 0;
        static int make(int id) { return id; }
        static int arg(int id) { return id; }
        static int id(const int &x) { return x; }
    };
    template <> struct El<std::string>
    {
        static constexpr const char *name = "string";
        static constexpr bool tracked = false;
        static constexpr int default_id = -5;
        // odd ids fit the small-string buffer, even ids own heap memory
        static std::string make(int id)
        {
            if (id == default_id)
                return std::string(); // what resize()/vector(n) create
            return (id & 1 ? std::string("#") : std::string("a-string-long-enough-to-own-heap-memory-#")) + std::to_string(id);
        }
        static std::string arg(int id) { return make(id); }
        static int id(const std::string &x)
        {
            size_t p = x.rfind('#');
            if (p == std::string::npos)
                return -5;
            return atoi(x.c_str() + p + 1);
        }
    };
    template <> struct El<Tracked>
    {
        static constexpr const char *name = "Tracked";
        static constexpr bool tracked = true;
        static constexpr int default_id = 0;
        static Tracked make(int id) { return Tracked(id); }
        static int arg(int id) { return id; } // emplace constructs Tracked(int) in place
        static int id(const Tracked &x) { return x.id(); }
    };

    // ------------------------------------------------------------ element whose constructors throw on schedule
    // The harness arms (kind, countdown) right before ONE call into the container: the countdown-th
    // construction of that kind (value/default, copy, move) throws InjectedFault before anything is
    // constructed or the source is touched. Destructors and assignments never throw.
    struct InjectedFault
    {
    };
    struct Throwing : Tracked
    {
        enum
        {
            NONE,
            VALUE,
            COPY,
            MOVE,
            CASSIGN, // copy assignment
            MASSIGN  // move assignment
        };
        static inline int armed = NONE, countdown = 0;
        static void arm(int kind, int n)
        {
            armed = kind;
            countdown = n;
        }
        static void disarm() { armed = NONE; }
        static int tick(int kind)
        {
            if (kind == armed && countdown > 0 && --countdown == 0)
            {
                armed = NONE;
                throw InjectedFault();
            }
            return 0;
        }
        Throwing() : Tracked(tick(VALUE)) {}
        Throwing(int id) : Tracked(tick(VALUE) + id) {}
        Throwing(const Throwing &o) : Tracked((tick(COPY), static_cast<const Tracked &>(o))) {}
        Throwing(Throwing &&o) : Tracked((tick(MOVE), static_cast<Tracked &&>(o))) {} // deliberately not noexcept
        Throwing &operator=(const Throwing &o)
        {
            tick(CASSIGN); // throws before anything is assigned
            Tracked::operator=(static_cast<const Tracked &>(o));
            return *this;
        }
        Throwing &operator=(Throwing &&o)
        {
            tick(MASSIGN);
            Tracked::operator=(static_cast<Tracked &&>(o));
            return *this;
        }
    };
    // ------------------------------------------------------------ element types with mixed triviality
    // TrivAssign: constructors and destructor register in the Tracked registry (keyed by address, no heap
    // cell), copy assignment is implicit and TRIVIAL: a container that picks a memcpy path by looking at the
    // wrong trait (is_trivially_copy_assignable) skips constructions / destructions this type makes visible.
    struct TrivAssign
    {
        int v;
        void born()
        {
            vf::TrackedReg &r = vf::treg();
            if (r.live.count(this))
                Tracked::err("construct-over-live", this);
            r.live[this] = 1;
            r.constructed++;
        }
        TrivAssign() : v(0) { born(); }
        TrivAssign(int id) : v(id) { born(); }
        TrivAssign(const TrivAssign &o) : v(o.id()) { born(); }
        ~TrivAssign()
        {
            vf::TrackedReg &r = vf::treg();
            auto it = r.live.find(this);
            if (it == r.live.end())
            {
                Tracked::err("destroy-nonlive", this);
                return;
            }
            r.live.erase(it);
            r.destroyed++;
        }
        TrivAssign &operator=(const TrivAssign &) = default;
        int id() const
        {
            if (!Tracked::is_live(this))
            {
                Tracked::err("read-nonlive", this);
                return -3;
            }
            return v;
        }
        friend bool operator==(const TrivAssign &a, const TrivAssign &b) { return a.id() == b.id(); }
        friend bool operator!=(const TrivAssign &a, const TrivAssign &b) { return a.id() != b.id(); }
        friend bool operator<(const TrivAssign &a, const TrivAssign &b) { return a.id() < b.id(); }
    };
    static_assert(std::is_trivially_copy_assignable_v<TrivAssign> && !std::is_trivially_copy_constructible_v<TrivAssign> &&
                  !std::is_trivially_destructible_v<TrivAssign>);
    template <> struct El<TrivAssign>
    {
        static constexpr const char *name = "TrivAssign";
        static constexpr bool tracked = true;
        static constexpr int default_id = 0;
        static TrivAssign make(int id) { return TrivAssign(id); }
        static int arg(int id) { return id; }
        static int id(const TrivAssign &x) { return x.id(); }
    };
    // TrivLife: the mirror image - trivial construction / destruction, user-provided assignment (which keeps a
    // checksum member in step, so an element that was block-copied over half-way or never assigned shows)
    struct TrivLife
    {
        int v;
        int twice;
        TrivLife &operator=(const TrivLife &o)
        {
            v = o.v;
            twice = 2 * o.v;
            return *this;
        }
        friend bool operator==(const TrivLife &a, const TrivLife &b) { return a.v == b.v; }
        friend bool operator!=(const TrivLife &a, const TrivLife &b) { return a.v != b.v; }
        friend bool operator<(const TrivLife &a, const TrivLife &b) { return a.v < b.v; }
    };
    static_assert(std::is_trivially_copy_constructible_v<TrivLife> && std::is_trivially_destructible_v<TrivLife> &&
                  !std::is_trivially_copy_assignable_v<TrivLife>);
    template <> struct El<TrivLife>
    {
        static constexpr const char *name = "TrivLife";
        static constexpr bool tracked = false;
        static constexpr int default_id = 0;
        static TrivLife make(int id) { return TrivLife{id, 2 * id}; }
        static TrivLife arg(int id) { return make(id); }
        static int id(const TrivLife &x) { return x.twice == 2 * x.v ? x.v : -7; }
    };
    template <> struct El<Throwing>
    {
        static constexpr const char *name = "Throwing";
        static constexpr bool tracked = true;
        static constexpr int default_id = 0;
        static Throwing make(int id) { return Throwing(id); }
        static int arg(int id) { return id; }
        static int id(const Throwing &x) { return x.id(); }
    };

    // ------------------------------------------------------------ harness-owned iterators
    // InIt: a genuine single-pass input iterator. All copies share one source; advancing any copy
    // consumes the source, and using a copy that was left behind (or reading at the end) is reported.
    // FwdIt: a multi-pass forward iterator over the same array.
#ifdef C02_PORTABLE
    using input_tag = igris::input_iterator_tag;
    using forward_tag = igris::forward_iterator_tag;
#else
    using input_tag = std::input_iterator_tag;
    using forward_tag = std::forward_iterator_tag;
#endif
    inline std::string &iter_ctx()
    {
        static std::string c;
        return c;
    }
    template <class T> struct InSrc
    {
        const T *data;
        size_t n, pos = 0;
        unsigned long gen = 0;
    };
    template <class T> struct InIt
    {
        using iterator_category = input_tag;
        using value_type = T;
        using difference_type = ptrdiff_t;
        using pointer = const T *;
        using reference = const T &;
        InSrc<T> *s = nullptr;
        unsigned long gen = 0;
        bool at_end() const { return !s || s->pos >= s->n; }
        void usable(const char *what) const
        {
            if (s && gen != s->gen)
                vf::fail(("input-range:" + iter_ctx() + ":stale-copy-used").c_str(),
                         "%s of an input-iterator copy after another copy had advanced the shared source (source at %zu of %zu): the range was traversed twice", what,
                         s->pos, s->n);
            if (at_end())
                vf::fail(("input-range:" + iter_ctx() + ":used-at-end").c_str(), "%s of an input iterator that is at the end of its range", what);
        }
        const T &operator*() const
        {
            usable("dereference");
            return s->data[s->pos];
        }
        InIt &operator++()
        {
            usable("increment");
            s->pos++;
            gen = ++s->gen;
            return *this;
        }
        struct Proxy
        {
            T v;
            const T &operator*() const { return v; }
        };
        Proxy operator++(int)
        {
            Proxy p{**this};
            ++*this;
            return p;
        }
        friend bool operator==(const InIt &a, const InIt &b) { return a.at_end() == b.at_end(); } // only "== end" is meaningful
        friend bool operator!=(const InIt &a, const InIt &b) { return !(a == b); }
    };
    template <class T> struct FwdIt
    {
        using iterator_category = forward_tag;
        using value_type = T;
        using difference_type = ptrdiff_t;
        using pointer = const T *;
        using reference = const T &;
        const T *p = nullptr;
        const T &operator*() const { return *p; }
        FwdIt &operator++()
        {
            ++p;
            return *this;
        }
        FwdIt operator++(int)
        {
            FwdIt r = *this;
            ++p;
            return r;
        }
        friend bool operator==(const FwdIt &a, const FwdIt &b) { return a.p == b.p; }
        friend bool operator!=(const FwdIt &a, const FwdIt &b) { return a.p != b.p; }
    };

    // ------------------------------------------------------------ operations
    enum Kind
    {
        PUSH_FRESH,
        PUSH_ALIAS,
        EMPLACE_BACK_FRESH,
        EMPLACE_BACK_ALIAS,
        INSERT_FRESH,
        INSERT_ALIAS,
        INSERT_INTPOS,
        INSERT_RANGE,
        EMPLACE_FRESH,
        EMPLACE_ALIAS,
        ERASE_RANGE,
        ERASE_POS,
        POP_BACK,
        RESIZE,
        RESERVE,
        CLEAR,
        COPY_CTOR,
        MOVE_CTOR,
        COPY_ASSIGN_FROM,
        COPY_ASSIGN_TO,
        MOVE_ASSIGN_FROM,
        MOVE_ASSIGN_TO,
        SELF_ASSIGN,
        COMPARE,
        AT,
        CTOR_IL,
        CTOR_RANGE,
        CTOR_N,
        NKINDS
    };
    static const char *const KNAME[NKINDS] = {"push_back(fresh)",
                                              "push_back(v[i])",
                                              "emplace_back(args)",
                                              "emplace_back(v[i])",
                                              "insert(pos,value)",
                                              "insert(pos,v[i])",
                                              "insert(int,value)",
                                              "insert(pos,first,last)",
                                              "emplace(pos,args)",
                                              "emplace(pos,v[i])",
                                              "erase(first,last)",
                                              "erase(pos)",
                                              "pop_back",
                                              "resize",
                                              "reserve",
                                              "clear",
                                              "copy-ctor",
                                              "move-ctor",
                                              "copy-assign(from-other)",
                                              "copy-assign(to-other)",
                                              "move-assign(from-other)",
                                              "move-assign(to-other)",
                                              "copy-assign(self)",
                                              "compare",
                                              "at",
                                              "ctor(initializer_list)",
                                              "ctor(first,last)",
                                              "ctor(n)"};
    struct Op
    {
        int kind, a, b;
    };
    static inline bool mutates(int k) { return k != COMPARE && k != AT && k != RESERVE && k != SELF_ASSIGN && k != COPY_ASSIGN_TO; }

    template <class V> constexpr bool has_at = requires(V &x, const V &c) { x.at(0); c.at(0); };
    template <class V> constexpr bool has_less = requires(const V &x) { x < x; };
    template <class V, class T> constexpr bool has_il = std::is_constructible_v<V, std::initializer_list<T> &>;

    // all operation instances that are valid for a vector of `n` elements and capacity `cap`
    template <class T> static void gen_ops(size_t n, size_t cap, std::vector<Op> &out)
    {
        using V = igris::vector<T>;
        int N = (int)n;
        out.clear();
        out.push_back({PUSH_FRESH, 0, 0});
        out.push_back({EMPLACE_BACK_FRESH, 0, 0});
        for (int i = 0; i < N; i++)
        {
            out.push_back({PUSH_ALIAS, i, 0});
            out.push_back({EMPLACE_BACK_ALIAS, i, 0});
            out.push_back({ERASE_POS, i, 0});
        }
        for (int p = 0; p <= N; p++)
        {
            out.push_back({INSERT_FRESH, p, 0});
            out.push_back({INSERT_INTPOS, p, 0});
            out.push_back({EMPLACE_FRESH, p, 0});
            for (int k = 0; k <= 3; k++)
                out.push_back({INSERT_RANGE, p, k});
            for (int i = 0; i < N; i++)
            {
                out.push_back({INSERT_ALIAS, p, i});
                out.push_back({EMPLACE_ALIAS, p, i});
            }
            if (Fam::template range_erase<T>)
                for (int q = p; q <= N; q++)
                    out.push_back({ERASE_RANGE, p, q});
        }
        if (N)
            out.push_back({POP_BACK, 0, 0});
        for (int k = 0; k <= N + 3; k++)
            out.push_back({RESIZE, k, 0});
        for (int k : {0, N, (int)cap + 1, (int)cap + 4})
            out.push_back({RESERVE, k, 0});
        out.push_back({CLEAR, 0, 0});
        out.push_back({COPY_CTOR, 0, 0});
        out.push_back({COPY_CTOR, 1, 0});
        out.push_back({MOVE_CTOR, 0, 0});
        for (int k : {0, 1, 3, 6})
        {
            out.push_back({COPY_ASSIGN_FROM, k, 0});
            out.push_back({COPY_ASSIGN_TO, k, 0});
            out.push_back({MOVE_ASSIGN_FROM, k, 0});
            out.push_back({MOVE_ASSIGN_TO, k, 0});
        }
        out.push_back({SELF_ASSIGN, 0, 0});
        out.push_back({COMPARE, 0, 0}); // equal
        out.push_back({COMPARE, 3, 0}); // other is a proper prefix
        out.push_back({COMPARE, 4, 0}); // other is longer
        for (int p = 0; p < N; p++)
        {
            out.push_back({COMPARE, 1, p}); // other larger at p
            out.push_back({COMPARE, 2, p}); // other smaller at p
        }
        if (has_at<V>)
            out.push_back({AT, 0, 0});
        if (has_il<V, T>)
            for (int k = 0; k <= 4; k++)
            {
                out.push_back({CTOR_IL, k, 0});
                out.push_back({CTOR_IL, k, 1});
            }
        for (int k = 0; k <= 4; k++)
        {
            if (Fam::std_iters)
                out.push_back({CTOR_RANGE, k, 0}); // std::list iterators
            out.push_back({CTOR_RANGE, k, 1});     // T* pair
            out.push_back({CTOR_RANGE, k, 2});     // const T* pair
            out.push_back({CTOR_RANGE, k, 3});     // harness single-pass input iterator
            out.push_back({CTOR_RANGE, k, 4});     // harness forward iterator
        }
        for (int k = 0; k <= 3; k++)
            out.push_back({CTOR_N, k, 0});
    }

    // ------------------------------------------------------------ one history
    template <class T> struct Hist
    {
        using V = igris::vector<T>;
        using E = El<T>;
        V *v = nullptr;
        std::vector<int> m;
        int next = 100;
        const char *op = "?";
        std::string trace;
        static const std::string &flav()
        {
            static const std::string f = std::string(Fam::name) + "<" + E::name + ">";
            return f;
        }
        [[noreturn]] __attribute__((format(printf, 4, 5))) void bad(const char *monitor, const char *clause, const char *fmt, ...)
        {
            char key[vf::KEY_LEN], det[900];
            snprintf(key, sizeof key, "%s:%s:%s:%s", monitor, flav().c_str(), op, clause);
            va_list ap;
            va_start(ap, fmt);
            vsnprintf(det, sizeof det, fmt, ap);
            va_end(ap);
            vf::fail(key, "%s | history: %s", det, trace.c_str());
        }
        static std::string show(const std::vector<int> &x)
        {
            std::string s = "[";
            for (size_t i = 0; i < x.size() && i < 24; i++)
                s += (i ? "," : "") + std::to_string(x[i]);
            return s + (x.size() > 24 ? ",...]" : "]");
        }
        int fresh() { return next++; }

        void start()
        {
            Tracked::reset(flav().c_str());
            Throwing::disarm();
            v = new V;
            m.clear();
            next = 100;
            trace.clear();
        }
        // everything observable about `x` must agree with `mm`; `live` = Tracked objects that must exist now
        void verify(V &x, const std::vector<int> &mm, size_t live)
        {
            Tracked::check();
            const V &cx = x;
            if (x.size() != mm.size())
                bad("seq", "size", "size()=%zu, std::vector has %zu %s", x.size(), mm.size(), show(mm).c_str());
            if (x.capacity() < x.size())
                bad("seq", "capacity", "capacity()=%zu < size()=%zu", x.capacity(), x.size());
            VF_OK("capacity() >= size()");
            if (x.empty() != mm.empty())
                bad("seq", "empty", "empty()=%d, size %zu", (int)x.empty(), mm.size());
            if ((size_t)(x.end() - x.begin()) != mm.size() || (size_t)(cx.end() - cx.begin()) != mm.size())
                bad("seq", "range", "end()-begin()=%td, expected %zu", x.end() - x.begin(), mm.size());
            std::vector<int> got;
            for (auto it = cx.begin(); it != cx.end(); ++it)
                got.push_back(E::id(*it));
            if (got != mm)
                bad("seq", "content", "begin()..end() = %s, std::vector = %s", show(got).c_str(), show(mm).c_str());
            Tracked::check();
            for (size_t i = 0; i < mm.size(); i++)
            {
                if (E::id(x[i]) != mm[i] || E::id(cx[i]) != mm[i] || E::id(x.data()[i]) != mm[i] || E::id(cx.data()[i]) != mm[i])
                    bad("seq", "index", "[%zu] = %d, std::vector = %d", i, E::id(cx[i]), mm[i]);
                if constexpr (has_at<V>)
                    if (E::id(x.at(i)) != mm[i])
                        bad("seq", "index", "at(%zu) = %d, std::vector = %d", i, E::id(x.at(i)), mm[i]);
            }
            if (!mm.empty())
            {
                if (E::id(x.front()) != mm.front() || E::id(cx.front()) != mm.front())
                    bad("seq", "front", "front() = %d, std::vector = %d", E::id(cx.front()), mm.front());
                if (E::id(x.back()) != mm.back() || E::id(cx.back()) != mm.back())
                    bad("seq", "back", "back() = %d, std::vector = %d", E::id(cx.back()), mm.back());
            }
            VF_OK("size, empty, begin..end, [], data, front, back == std::vector after the op");
            if (!(cx == cx) || (cx != cx))
                bad("cmp", "reflexive", "v == v is false or v != v is true, size %zu", mm.size());
            Tracked::check();
            if constexpr (E::tracked)
            {
                VF_OK("no operation touched a non-live element (Tracked registry)");
                if (Tracked::live_count() != live)
                    bad("lifetime", "live-count", "%zu Tracked objects are alive, the model needs exactly %zu (std::vector = %s)",
                        Tracked::live_count(), live, show(mm).c_str());
                VF_OK("live element objects == elements the model holds");
            }
        }
        void verify() { verify(*v, m, m.size()); }

        static std::vector<T> mk(const std::vector<int> &ids)
        {
            std::vector<T> r;
            r.reserve(ids.size());
            for (int i : ids)
                r.push_back(E::make(i));
            return r;
        }
        std::vector<int> fresh_ids(int k)
        {
            std::vector<int> r;
            for (int i = 0; i < k; i++)
                r.push_back(fresh());
            return r;
        }
        static void fill(V &t, const std::vector<int> &ids)
        {
            for (int i : ids)
            {
                T x = E::make(i);
                t.push_back(x);
            }
        }
        // returns nullptr when an injected fault made the constructor throw
        template <size_t... I> V *new_il(const std::vector<int> &ids, bool rv, std::index_sequence<I...>)
        {
            V *w = nullptr;
            if constexpr (has_il<V, T>)
            {
                std::initializer_list<T> il = {E::make(ids[I])...};
                guarded([&] { w = rv ? new V(std::move(il)) : new V(il); });
            }
            else
                w = new V;
            return w;
        }

        // ---- fault injection (T = Throwing only): armed around exactly one call into the container
        static constexpr bool throwing = std::is_same_v<T, Throwing>;
        int fault_kind = 0, fault_countdown = 0; // set by the workload before apply(); consumed by it
        int fired_kind = 0;
        bool fault_fired = false;
        template <class F> bool guarded(F &&f)
        {
            if constexpr (throwing)
            {
                int k = fault_kind, c = fault_countdown;
                fault_kind = 0;
                if (!k)
                {
                    f();
                    return false;
                }
                Throwing::arm(k, c);
                try
                {
                    f();
                }
                catch (const InjectedFault &)
                {
                    Throwing::disarm();
                    fault_fired = true;
                    fired_kind = k;
                    if (vf::verbose())
                        printf("    -> injected fault: construction #%d of kind %d threw\n", c, k);
                    trace += k == Throwing::VALUE    ? "!value-ctor-threw"
                             : k == Throwing::COPY   ? "!copy-ctor-threw"
                             : k == Throwing::MOVE   ? "!move-ctor-threw"
                             : k == Throwing::CASSIGN ? "!copy-assignment-threw"
                                                      : "!move-assignment-threw";
                    return true;
                }
                catch (...)
                {
                    Throwing::disarm(); // a monitor failure passes through: do not leave the fault armed for the next case
                    throw;
                }
                Throwing::disarm();
                return false;
            }
            else
            {
                f();
                return false;
            }
        }
        // after a throwing operation that may leave a changed (but valid) vector: every exposed element is a
        // live object, capacity >= size, the number of live objects equals what the containers report
        void exposed_live(V &x)
        {
            Tracked::check();
            if (x.capacity() < x.size())
                bad("seq", "capacity-after-throw", "capacity()=%zu < size()=%zu", x.capacity(), x.size());
            for (size_t i = 0; i < x.size(); i++)
                (void)E::id(x[i]); // a slot that holds no object is reported by the registry
            Tracked::check();
        }
        void live_after_throw(size_t live)
        {
            if constexpr (E::tracked)
                if (Tracked::live_count() != live)
                    bad("lifetime", "live-count-after-throw",
                        "%zu Tracked objects are alive after an element constructor threw, the containers report exactly %zu elements", Tracked::live_count(), live);
            VF_OK("after a throwing element constructor: exposed elements are live objects, live == size()");
        }
        void resync()
        {
            m.clear();
            for (size_t i = 0; i < v->size(); i++)
                m.push_back(E::id((*v)[i]));
        }
        // a single-element append (at the end) has no effect when a copy/value constructor throws (like std::vector);
        // a throwing MOVE during the reallocation, and every other operation, only keeps the vector valid
        void after_throw(bool append)
        {
            if (append && (fired_kind == Throwing::VALUE || fired_kind == Throwing::COPY))
            {
                VF_OK("append whose element constructor threw left the sequence unchanged");
                return; // verify() below compares with the unchanged model
            }
            exposed_live(*v);
            live_after_throw(v->size());
            resync();
        }

        void apply(const Op &o)
        {
            op = KNAME[o.kind];
            Tracked::at(op);
            char tag[160];
            snprintf(tag, sizeof tag, "%s:%s", flav().c_str(), op);
            vf::cls(tag);
            iter_ctx() = tag;
            fault_fired = false;
            {
                char b[96];
                snprintf(b, sizeof b, "%s%s(%d,%d)[n=%zu,cap=%zu]", trace.empty() ? "" : " ; ", op, o.a, o.b, m.size(), v->capacity());
                trace += b;
                if (vf::verbose())
                    printf("  op %s a=%d b=%d   size=%zu capacity=%zu model=%s\n", op, o.a, o.b, m.size(), v->capacity(), show(m).c_str());
            }
            vf::state(vf::mix(o.kind, vf::mix(m.size() > 6 ? 6 : m.size(), v->capacity() - m.size() > 3 ? 3 : v->capacity() - m.size())));
            using cit = typename V::const_iterator;
            switch (o.kind)
            {
            case PUSH_FRESH:
            {
                int id = fresh();
                bool thrown;
                {
                    T x = E::make(id);
                    thrown = guarded([&] { v->push_back(x); });
                }
                if (thrown)
                    after_throw(true);
                else
                    m.push_back(id);
                break;
            }
            case PUSH_ALIAS:
            {
                int id = m[o.a];
                if (guarded([&] { v->push_back((*v)[o.a]); }))
                    after_throw(true);
                else
                    m.push_back(id);
                break;
            }
            case EMPLACE_BACK_FRESH:
            {
                int id = fresh();
                if (guarded([&] { v->emplace_back(E::arg(id)); }))
                    after_throw(true);
                else
                    m.push_back(id);
                break;
            }
            case EMPLACE_BACK_ALIAS:
            {
                int id = m[o.a];
                if (guarded([&] { v->emplace_back((*v)[o.a]); }))
                    after_throw(true);
                else
                    m.push_back(id);
                break;
            }
            case INSERT_FRESH:
            case INSERT_INTPOS:
            {
                int id = fresh();
                bool thrown, at_end = (size_t)o.a == m.size();
                {
                    T x = E::make(id);
                    thrown = guarded([&] {
                        auto it = o.kind == INSERT_FRESH ? v->insert((cit)(v->begin() + o.a), x) : v->insert((int)o.a, x);
                        if (it != v->begin() + o.a)
                            bad("seq", "returned-iterator", "insert at %d returned begin()+%td", o.a, it - v->begin());
                    });
                }
                if (thrown)
                    after_throw(at_end);
                else
                    m.insert(m.begin() + o.a, id);
                break;
            }
            case INSERT_ALIAS:
            {
                int id = m[o.b];
                bool at_end = (size_t)o.a == m.size();
                if (guarded([&] {
                        auto it = v->insert((cit)(v->begin() + o.a), (*v)[o.b]);
                        if (it != v->begin() + o.a)
                            bad("seq", "returned-iterator", "insert at %d returned begin()+%td", o.a, it - v->begin());
                    }))
                    after_throw(at_end);
                else
                    m.insert(m.begin() + o.a, id);
                break;
            }
            case INSERT_RANGE:
            {
                std::vector<int> ids = fresh_ids(o.b);
                {
                    std::vector<T> src = mk(ids); // foreign range, as std::vector::insert requires
                    const T *f = src.data();       // (the member takes const T* only: pointers are the forced category)
                    bool thrown = guarded([&] {
                        auto it = v->insert(v->begin() + o.a, f, f + ids.size());
                        if (it != v->begin() + o.a)
                            bad("seq", "returned-iterator", "insert at %d returned begin()+%td", o.a, it - v->begin());
                    });
                    for (size_t i = 0; i < ids.size(); i++)
                        if (E::id(src[i]) != ids[i])
                            bad("seq", "source-modified", "source element %zu became %d", i, E::id(src[i]));
                    if (thrown)
                    {
                        exposed_live(*v);
                        live_after_throw(v->size() + ids.size());
                    }
                }
                if (fault_fired)
                    resync();
                else
                    m.insert(m.begin() + o.a, ids.begin(), ids.end());
                break;
            }
            case EMPLACE_FRESH:
            {
                int id = fresh();
                bool at_end = (size_t)o.a == m.size();
                if (guarded([&] {
                        auto it = v->emplace((cit)(v->begin() + o.a), E::arg(id));
                        if (it != v->begin() + o.a)
                            bad("seq", "returned-iterator", "emplace at %d returned begin()+%td", o.a, it - v->begin());
                    }))
                    after_throw(at_end);
                else
                    m.insert(m.begin() + o.a, id);
                break;
            }
            case EMPLACE_ALIAS:
            {
                int id = m[o.b];
                bool at_end = (size_t)o.a == m.size();
                if (guarded([&] {
                        auto it = v->emplace((cit)(v->begin() + o.a), (*v)[o.b]);
                        if (it != v->begin() + o.a)
                            bad("seq", "returned-iterator", "emplace at %d returned begin()+%td", o.a, it - v->begin());
                    }))
                    after_throw(at_end);
                else
                    m.insert(m.begin() + o.a, id);
                break;
            }
            case ERASE_RANGE:
                if constexpr (Fam::template range_erase<T>)
                {
                    // erase shifts the tail down by assignment: a throwing assignment may leave any valid state
                    if (guarded([&] { v->erase(v->begin() + o.a, v->begin() + o.b); }))
                        after_throw(false);
                    else
                        m.erase(m.begin() + o.a, m.begin() + o.b);
                }
                break;
            case ERASE_POS:
                if (guarded([&] { v->erase(v->begin() + o.a); }))
                    after_throw(false);
                else
                    m.erase(m.begin() + o.a);
                break;
            case POP_BACK:
                v->pop_back();
                m.pop_back();
                break;
            case RESIZE:
                if (guarded([&] { v->resize((size_t)o.a); }))
                    after_throw(false);
                else
                    m.resize((size_t)o.a, E::default_id);
                break;
            case RESERVE:
                if (guarded([&] { v->reserve((size_t)o.a); }))
                {
                    after_throw(false);
                    break;
                }
                if (v->capacity() < (size_t)o.a)
                    bad("seq", "capacity", "capacity()=%zu after reserve(%d)", v->capacity(), o.a);
                break;
            case CLEAR:
                v->clear();
                m.clear();
                break;
            case COPY_CTOR:
            {
                V *w = nullptr;
                if (guarded([&] { w = new V(*(const V *)v); }))
                    break; // the copy never came to life: the source is untouched and nothing of it stays alive (verified below)
                verify(*w, m, 2 * m.size());
                verify(*v, m, 2 * m.size());
                if (o.a)
                    std::swap(v, w);
                delete w;
                break;
            }
            case MOVE_CTOR:
            {
                V *w = new V(std::move(*v));
                verify(*w, m, m.size() + v->size());
                if (v->size() != 0)
                    bad("seq", "moved-from", "source of the move constructor holds %zu elements, std::vector guarantees empty", v->size());
                VF_OK("source of move construction is empty");
                delete v;
                v = w;
                break;
            }
            case COPY_ASSIGN_FROM:
            {
                std::vector<int> ids = fresh_ids(o.a);
                {
                    V t;
                    fill(t, ids);
                    if (guarded([&] { *v = (const V &)t; }))
                    {
                        exposed_live(*v);
                        live_after_throw(v->size() + ids.size());
                        verify(t, ids, v->size() + ids.size()); // the source of a copy is untouched
                    }
                    else
                    {
                        verify(*v, ids, 2 * ids.size());
                        verify(t, ids, 2 * ids.size());
                    }
                }
                if (fault_fired)
                    resync();
                else
                    m = ids;
                break;
            }
            case COPY_ASSIGN_TO:
            {
                std::vector<int> ids = fresh_ids(o.a);
                V t;
                fill(t, ids);
                if (guarded([&] { t = (const V &)*v; }))
                {
                    exposed_live(t);
                    live_after_throw(t.size() + m.size());
                    verify(*v, m, t.size() + m.size());
                    break;
                }
                verify(t, m, 2 * m.size());
                verify(*v, m, 2 * m.size());
                break;
            }
            case MOVE_ASSIGN_FROM:
            {
                std::vector<int> ids = fresh_ids(o.a);
                {
                    V t;
                    fill(t, ids);
                    *v = std::move(t);
                    verify(*v, ids, ids.size() + t.size());
                }
                m = ids;
                break;
            }
            case MOVE_ASSIGN_TO:
            {
                std::vector<int> ids = fresh_ids(o.a);
                {
                    V t;
                    fill(t, ids);
                    t = std::move(*v);
                    verify(t, m, m.size() + v->size());
                }
                v->clear(); // the source is valid but unspecified: bring it to a known state
                m.clear();
                break;
            }
            case SELF_ASSIGN:
            {
                V &r = *v;
                *v = (const V &)r;
                break;
            }
            case COMPARE:
            {
                std::vector<int> om = m;
                if (o.a == 1)
                    om[o.b] += 1000;
                else if (o.a == 2)
                    om[o.b] -= 50;
                else if (o.a == 3)
                {
                    if (om.empty())
                        om.push_back(fresh());
                    else
                        om.pop_back();
                }
                else if (o.a == 4)
                    om.push_back(fresh());
                {
                    V t;
                    fill(t, om);
                    std::vector<T> ra = mk(m), rb = mk(om); // the reference compares the same element values
                    const V &a = *v, &b = t;
                    if ((a == b) != (ra == rb) || (b == a) != (rb == ra))
                        bad("cmp", "==", "operator== gives %d, std::vector %d; this=%s other=%s", (int)(a == b), (int)(ra == rb), show(m).c_str(), show(om).c_str());
                    if ((a != b) != (ra != rb) || (b != a) != (rb != ra))
                        bad("cmp", "!=", "operator!= gives %d, std::vector %d; this=%s other=%s", (int)(a != b), (int)(ra != rb), show(m).c_str(), show(om).c_str());
                    VF_OK("operator== and != agree with std::vector");
                    if constexpr (has_less<V>)
                    {
                        if ((a < b) != (ra < rb) || (b < a) != (rb < ra))
                            bad("cmp", "<", "operator< gives %d/%d, std::vector %d/%d; this=%s other=%s", (int)(a < b), (int)(b < a), (int)(ra < rb),
                                (int)(rb < ra), show(m).c_str(), show(om).c_str());
                        VF_OK("operator< agrees with std::vector");
                    }
                    Tracked::check();
                }
                break;
            }
            case AT:
                if constexpr (has_at<V>)
                {
                    const V &c = *v;
                    for (size_t i = 0; i < m.size() + 2; i++)
                    {
                        bool threw = false, cthrew = false;
                        int got = 0, cgot = 0;
                        try
                        {
                            got = E::id(v->at(i));
                        }
                        catch (const std::out_of_range &)
                        {
                            threw = true;
                        }
                        try
                        {
                            cgot = E::id(c.at(i));
                        }
                        catch (const std::out_of_range &)
                        {
                            cthrew = true;
                        }
                        bool want = i >= m.size();
                        if (threw != want || cthrew != want)
                            bad("seq", "at-throws", "at(%zu) with size %zu: threw=%d const threw=%d", i, m.size(), (int)threw, (int)cthrew);
                        if (!want && (got != m[i] || cgot != m[i]))
                            bad("seq", "index", "at(%zu)=%d const at=%d expected %d", i, got, cgot, m[i]);
                    }
                    VF_OK("at() throws std::out_of_range iff index >= size()");
                }
                break;
            case CTOR_IL:
            {
                std::vector<int> ids = fresh_ids(o.a);
                V *w = nullptr;
                switch (o.a)
                {
                case 0:
                    w = new_il(ids, o.b, std::make_index_sequence<0>());
                    break;
                case 1:
                    w = new_il(ids, o.b, std::make_index_sequence<1>());
                    break;
                case 2:
                    w = new_il(ids, o.b, std::make_index_sequence<2>());
                    break;
                case 3:
                    w = new_il(ids, o.b, std::make_index_sequence<3>());
                    break;
                default:
                    w = new_il(ids, o.b, std::make_index_sequence<4>());
                    break;
                }
                if (!w)
                    break; // an element constructor threw: the old vector stays, nothing of the failed one may be alive
                delete v;
                v = w;
                m = ids;
                break;
            }
            case CTOR_RANGE:
            {
                std::vector<int> ids = fresh_ids(o.a);
                V *w = nullptr;
                bool thrown = false;
                {
                    std::vector<T> src = mk(ids);
                    T *f = src.data();
                    const T *cf = f;
                    if (o.b == 0)
                    {
                        if constexpr (Fam::std_iters)
                        {
                            std::list<T> lst(src.begin(), src.end());
                            thrown = guarded([&] { w = new V(lst.begin(), lst.end()); });
                        }
                        else
                            w = new V;
                    }
                    else if (o.b == 1)
                        thrown = guarded([&] { w = new V(f, f + ids.size()); });
                    else if (o.b == 2)
                        thrown = guarded([&] { w = new V(cf, cf + ids.size()); });
                    else if (o.b == 3)
                    {
                        // single-pass input range: the source may be traversed once only
                        InSrc<T> in{cf, ids.size()};
                        InIt<T> first{&in, 0}, last{};
                        thrown = guarded([&] { w = new V(first, last); });
                        VF_OK("range constructor driven by a single-pass input iterator");
                    }
                    else
                    {
                        FwdIt<T> first{cf}, last{cf + ids.size()};
                        thrown = guarded([&] { w = new V(first, last); });
                    }
                    for (size_t i = 0; i < ids.size(); i++)
                        if (E::id(src[i]) != ids[i])
                            bad("seq", "source-modified", "source element %zu became %d", i, E::id(src[i]));
                }
                if (thrown)
                    break; // the old vector stays; nothing of the failed one may be alive (verified below)
                delete v;
                v = w;
                m = ids;
                break;
            }
            case CTOR_N:
            {
                V *w = nullptr;
                if (guarded([&] { w = new V((size_t)o.a); }))
                    break;
                delete v;
                v = w;
                m.assign((size_t)o.a, E::default_id);
                break;
            }
            }
            if (fault_fired)
                VF_OK("an element constructor threw inside the operation");
            verify();
        }
        // history ended normally: the vector goes away and nothing may stay alive
        void finish()
        {
            op = "destructor";
            Tracked::at(op);
            delete v;
            v = nullptr;
            if constexpr (E::tracked)
            {
                Tracked::check_all_destroyed();
                VF_OK("every element constructed was destroyed exactly once at the end of the history");
            }
        }
        // build the start state of the enumeration: `n` elements, `spare` unused slots (no reallocation pending)
        void build(int n, int spare)
        {
            op = "build";
            Tracked::at(op);
            vf::cls("build");
            if (n + spare > 0 && spare >= 0)
                v->reserve((size_t)(n + spare));
            for (int i = 0; i < n; i++)
            {
                int id = fresh();
                T x = E::make(id);
                v->push_back(x);
                m.push_back(id);
            }
            {
                char b[64];
                snprintf(b, sizeof b, "build(size=%d,capacity=%zu)", n, v->capacity());
                trace = b;
            }
            if (spare >= 0 && v->capacity() != (size_t)(n + spare))
                vf::fail("harness:build", "capacity %zu after reserve(%d)+%d push_back", v->capacity(), n + spare, n);
            verify();
        }
    };

    // ------------------------------------------------------------ suites
    // (a) enumeration: start state (size 0..4) x (capacity state) x op1 x op2, every position of every op
    static const int SPARE[4] = {0, 1, 3, -1}; // -1: grown by push_back alone (whatever capacity that gives)
    static const int ENUM_SLOTS = 208;        // >= number of op instances for size 4
    static uint64_t enum_count() { return 5ull * 4 * ENUM_SLOTS; }
    template <class T> static void enum_run_t(int n, int spare, int slot)
    {
        std::vector<Op> ops1, ops2;
        {
            Hist<T> h;
            h.start();
            h.build(n, spare);
            gen_ops<T>(h.m.size(), h.v->capacity(), ops1);
            h.finish();
        }
        if ((size_t)ENUM_SLOTS < ops1.size())
            vf::fail("harness:enum-slots", "%zu op instances do not fit %d slots", ops1.size(), ENUM_SLOTS);
        if ((size_t)slot >= ops1.size())
            return;
        uint64_t seqs = 0, nontrivial = 0;
        // the single op on its own, then followed by every second op
        {
            Hist<T> h;
            h.start();
            h.build(n, spare);
            h.apply(ops1[slot]);
            gen_ops<T>(h.m.size(), h.v->capacity(), ops2);
            h.finish();
            seqs++;
            nontrivial += (n > 0 || mutates(ops1[slot].kind));
        }
        // quick: second op thinned to every 3rd instance (rotating with the case so that all are used)
        size_t step = vf::thorough() ? 1 : 3, first = vf::thorough() ? 0 : (size_t)(slot + n + vf::seed()) % 3;
        for (size_t j = first; j < ops2.size(); j += step)
        {
            Hist<T> h;
            h.start();
            h.build(n, spare);
            h.apply(ops1[slot]);
            h.apply(ops2[j]);
            h.finish();
            seqs++;
            nontrivial += (mutates(ops1[slot].kind) || mutates(ops2[j].kind));
        }
        vf::count_bulk(seqs, nontrivial);
        if (vf::want_sample() && n == 3 && slot % 37 == 5)
            vf::sample("enum: %s start size=%d spare=%d op1=%s(%d,%d) then each of %zu second ops", Hist<T>::flav().c_str(), n, spare,
                       KNAME[ops1[slot].kind], ops1[slot].a, ops1[slot].b, ops2.size());
    }
    template <class T> static void enum_run(uint64_t idx)
    {
        int slot = idx % ENUM_SLOTS;
        idx /= ENUM_SLOTS;
        int spare = SPARE[idx % 4];
        idx /= 4;
        enum_run_t<T>((int)(idx % 5), spare, slot);
    }

    // (a') T = Throwing: start state x every fault-relevant operation instance x {value, copy, move} constructor
    //      throwing at its 1st..(n+3)-th call, followed by further operations and the destructor
    static inline bool fault_relevant(int k)
    {
        return k <= EMPLACE_ALIAS || k == ERASE_RANGE || k == ERASE_POS || k == RESIZE || k == RESERVE || k == COPY_CTOR || k == COPY_ASSIGN_FROM || k == COPY_ASSIGN_TO || k == CTOR_IL ||
               k == CTOR_RANGE || k == CTOR_N;
    }
    static uint64_t fault_count() { return 5ull * 4 * ENUM_SLOTS; }
    static void fault_run(uint64_t idx)
    {
        using T = Throwing;
        int slot = idx % ENUM_SLOTS;
        idx /= ENUM_SLOTS;
        int spare = SPARE[idx % 4];
        idx /= 4;
        int n = (int)(idx % 5);
        std::vector<Op> ops;
        {
            Hist<T> h;
            h.start();
            h.build(n, spare);
            gen_ops<T>(h.m.size(), h.v->capacity(), ops);
            h.finish();
        }
        if ((size_t)slot >= ops.size() || !fault_relevant(ops[slot].kind))
            return;
        uint64_t seqs = 0, fired = 0;
        for (int kind = 1; kind <= 5; kind++) // value / copy / move constructor, copy / move assignment
            for (int c = 1; c <= n + 3; c++)
            {
                Hist<T> h;
                h.start();
                h.build(n, spare);
                h.fault_kind = kind;
                h.fault_countdown = c;
                h.apply(ops[slot]);
                bool f = h.fault_fired;
                // the vector must remain fully usable
                h.apply({PUSH_FRESH, 0, 0});
                if (!h.m.empty())
                    h.apply({ERASE_POS, 0, 0});
                h.apply({INSERT_FRESH, 0, 0});
                h.finish();
                seqs++;
                fired += f;
            }
        vf::count_bulk(seqs, fired);
        if (vf::want_sample() && n == 3 && slot % 29 == 4)
            vf::sample("faults: %s start size=%d spare=%d op=%s(%d,%d) x {value,copy,move} ctor throwing at call 1..%d: %llu with a throw", Hist<T>::flav().c_str(),
                       n, spare, KNAME[ops[slot].kind], ops[slot].a, ops[slot].b, n + 3, (unsigned long long)fired);
    }

    // (b) seeded random histories of 60 operations
    static uint64_t rand_count() { return vf::thorough() ? 100000 : 1000; } // per element type
    template <class T> static void rand_run_t(uint64_t idx)
    {
        vf::Rng r(vf::seed(), 0xC02 + sizeof(T) + El<T>::tracked, idx);
        Hist<T> h;
        h.start();
        std::vector<Op> ops, pick;
        uint64_t hh = vf::hash_bytes(Hist<T>::flav().data(), Hist<T>::flav().size());
        bool nontrivial = false;
        for (int step = 0; step < 60; step++)
        {
            gen_ops<T>(h.m.size(), h.v->capacity(), ops);
            bool present[NKINDS] = {false};
            for (auto &o : ops)
                present[o.kind] = true;
            // keep the vector small so that every position stays likely
            if (h.m.size() > 10)
                for (int k : {PUSH_FRESH, PUSH_ALIAS, EMPLACE_BACK_FRESH, EMPLACE_BACK_ALIAS, INSERT_FRESH, INSERT_ALIAS, INSERT_INTPOS, INSERT_RANGE,
                              EMPLACE_FRESH, EMPLACE_ALIAS})
                    present[k] = false;
            int kinds[NKINDS], nk = 0;
            for (int k = 0; k < NKINDS; k++)
                if (present[k])
                    kinds[nk++] = k;
            int k = kinds[r.below(nk)];
            pick.clear();
            for (auto &o : ops)
                if (o.kind == k)
                    pick.push_back(o);
            Op o = pick[r.below(pick.size())];
            if (k == RESIZE && r.chance(1, 4))
                o.a = r.range(0, 14);
            int fk = 0, fc = 0;
            if constexpr (Hist<T>::throwing)
                if (r.chance(1, 2))
                {
                    h.fault_kind = fk = 1 + (int)r.below(5);
                    h.fault_countdown = fc = 1 + (int)r.below(6);
                }
            h.apply(o);
            hh = vf::mix(hh, vf::mix(o.kind * 64 + fk * 8 + fc, vf::mix(o.a, o.b)));
            nontrivial |= mutates(o.kind) && !h.m.empty();
        }
        h.finish();
        vf::count_case(hh, nontrivial);
        if (vf::want_sample() && idx % 101 == 7)
            vf::sample("random: %s %.400s", Hist<T>::flav().c_str(), h.trace.c_str());
    }
    static inline void require_vector_clauses()
    {
        using V = igris::vector<int>;
        for (const char *c : {"capacity() >= size()", "size, empty, begin..end, [], data, front, back == std::vector after the op",
                              "no operation touched a non-live element (Tracked registry)", "live element objects == elements the model holds",
                              "source of move construction is empty", "operator== and != agree with std::vector",
                              "every element constructed was destroyed exactly once at the end of the history"})
            vf::require(c);
        for (const char *c : {"an element constructor threw inside the operation", "append whose element constructor threw left the sequence unchanged",
                              "after a throwing element constructor: exposed elements are live objects, live == size()",
                              "range constructor driven by a single-pass input iterator"})
            vf::require(c);
        vf::require("== / != on element types where bytewise and semantic equality differ agree with std::vector");
        if (has_less<V>)
            vf::require("< on floating-point / loose-equality element types agrees with std::vector");
        if (has_less<V>)
            vf::require("operator< agrees with std::vector");
        if (has_at<V>)
            vf::require("at() throws std::out_of_range iff index >= size()");
    }
} // namespace c02

#define C02_VEC_SUITES(T, tag)                                                   \
    VF_SUITE(enumerate_##tag, c02::enum_count, c02::enum_run<T>)                 \
    VF_SUITE(random_##tag, c02::rand_count, c02::rand_run_t<T>)
#define C02_VEC_FAULT_SUITES(tag)                                                \
    VF_SUITE(faults_enumerate_##tag, c02::fault_count, c02::fault_run)           \
    VF_SUITE(faults_random_##tag, c02::rand_count, c02::rand_run_t<c02::Throwing>)
