// C02 unit "flat": igris::flat_map / igris::flat_set against std::map / std::set.
// After every operation every key of a small universe is looked up through find, count, at
// (throws iff absent) and size; operator[] (inserts a default) is an operation of the history.
// Iteration order is not compared and const operator[] on a missing key is never called (DESIGN 3a).
#include <cassert> // before vf.h: vf.h defines __assert_fail and must see the libc declaration first
#define VF_MAIN
#include "vf.h"
#include "tracked.h"
#include <igris/container/flat_map.h>
#include <igris/container/flat_set.h>
#include <algorithm>
#include <functional>
#include <cstring>
#include <map>
#include <set>
#include <string>

using vf::Tracked;

// ------------------------------------------------------------ key / value types
template <class K> struct Key;
template <> struct Key<int>
{
    static constexpr const char *name = "int";
    static int make(int i)
    {
        static const int v[12] = {5, -3, 0, 2147483647, -2147483647 - 1, 4, 6, 1, -1, 1000, 7, 3};
        return v[i % 12];
    }
};
template <> struct Key<std::string>
{
    static constexpr const char *name = "string";
    static std::string make(int i)
    {
        static const char *v[12] = {"b", "a", "", "ab", "a-key-long-enough-to-own-heap-memory", "abc", "ba", "a-key-long-enough-to-own-heap-memorx",
                                    "B", "aa", "c", "a-key-long-enough-to-own-heap-memor"};
        return v[i % 12];
    }
};
template <class V> struct Val;
template <> struct Val<int>
{
    static constexpr const char *name = "int";
    static int make(int id) { return id; }
    static int id(const int &v) { return v; }
};
template <> struct Val<std::string>
{
    static constexpr const char *name = "string";
    static std::string make(int id) { return id ? "value-with-its-own-heap-block-#" + std::to_string(id) : std::string(); }
    static int id(const std::string &v)
    {
        size_t p = v.rfind('#');
        return p == std::string::npos ? 0 : atoi(v.c_str() + p + 1);
    }
};
template <> struct Val<Tracked>
{
    static constexpr const char *name = "Tracked";
    static Tracked make(int id) { return Tracked(id); }
    static int id(const Tracked &v) { return v.id(); }
};

// ---- custom orderings whose equivalence is coarser than operator== (or simply reversed)
struct CaseLess // case-insensitive
{
    static constexpr const char *name = "CaseLess";
    bool operator()(const std::string &a, const std::string &b) const
    {
        return std::lexicographical_compare(a.begin(), a.end(), b.begin(), b.end(),
                                            [](unsigned char x, unsigned char y) { return tolower(x) < tolower(y); });
    }
};
struct CiKeys // pairs of keys that are equivalent under CaseLess but not ==
{
    static constexpr const char *name = "string";
    static std::string make(int i)
    {
        static const char *v[12] = {"a", "A", "b", "B", "ab", "AB", "aB", "", "a-key-long-enough-to-own-heap-memory", "A-KEY-long-enough-to-own-heap-MEMORY", "abc", "ABc"};
        return v[i % 12];
    }
};
struct Rec
{
    int id, payload;
    friend bool operator==(const Rec &a, const Rec &b) { return a.id == b.id && a.payload == b.payload; }
    friend bool operator<(const Rec &a, const Rec &b) { return a.id < b.id || (a.id == b.id && a.payload < b.payload); }
};
struct ById // records ordered by one member only
{
    static constexpr const char *name = "ById";
    bool operator()(const Rec &a, const Rec &b) const { return a.id < b.id; }
};
struct RecKeys
{
    static constexpr const char *name = "Rec";
    static Rec make(int i) { return Rec{(i % 12) / 2 * 7 - 9, i % 2}; }
};
template <class C> struct CmpName
{
    static std::string get() { return std::string(",") + C::name; }
};
template <class K> struct CmpName<std::less<K>>
{
    static std::string get() { return ""; }
};
template <class K> struct CmpName<std::greater<K>>
{
    static std::string get() { return ",greater"; }
};
template <class C, class K> static bool equiv(const K &a, const K &b) { return !C()(a, b) && !C()(b, a); }

static std::string g_trace;
static const char *g_op = "?";
static std::string g_flav;
[[noreturn]] __attribute__((format(printf, 3, 4))) static void bad(const char *monitor, const char *clause, const char *fmt, ...)
{
    char key[vf::KEY_LEN], det[700];
    snprintf(key, sizeof key, "%s:%s:%s:%s", monitor, g_flav.c_str(), g_op, clause);
    va_list ap;
    va_start(ap, fmt);
    vsnprintf(det, sizeof det, fmt, ap);
    va_end(ap);
    vf::fail(key, "%s | history: %s", det, g_trace.c_str());
}
static void begin_op(const char *op, int a, int b)
{
    g_op = op;
    Tracked::at(op);
    char tag[160];
    snprintf(tag, sizeof tag, "%s:%s", g_flav.c_str(), op);
    vf::cls(tag);
    char buf[80];
    snprintf(buf, sizeof buf, "%s%s(%d,%d)", g_trace.empty() ? "" : " ; ", op, a, b);
    g_trace += buf;
    if (vf::verbose())
        printf("  op %s key#%d value-id %d\n", op, a, b);
}

// ------------------------------------------------------------ flat_map
enum MKind
{
    M_INSERT,
    M_EMPLACE,
    M_INDEX_WRITE,
    M_INDEX_READ,
    M_AT_WRITE,
    M_CLEAR,
    M_COPY_CTOR,
    M_COPY_ASSIGN,
    M_MOVE_CTOR,
    M_MOVE_ASSIGN,
    M_RESERVE,
    M_NKINDS
};
static const char *const MNAME[M_NKINDS] = {"insert(value)", "emplace(key,args)", "operator[]=", "operator[]", "at()=", "clear",
                                           "copy-ctor", "copy-assign", "move-ctor", "move-assign", "reserve"};

template <class K, class V, class C = std::less<K>, class KM = Key<K>> struct MapHist
{
    using FM = igris::flat_map<K, V, C>;
    using VT = typename FM::value_type;
    FM *fm = nullptr;
    std::map<K, int, C> m;
    int next = 100;
    int universe = 3;
    static const std::string &flav()
    {
        static const std::string f = std::string("flat_map<") + KM::name + "," + Val<V>::name + CmpName<C>::get() + ">";
        return f;
    }
    void start(int universe_)
    {
        g_flav = flav();
        Tracked::reset(flav().c_str());
        g_trace.clear();
        fm = new FM;
        m.clear();
        next = 100;
        universe = universe_;
    }
    void verify(FM &x, size_t live)
    {
        Tracked::check();
        const FM &cx = x;
        if (x.size() != m.size())
            bad("map", "size", "size()=%zu, std::map has %zu", (size_t)x.size(), m.size());
        if (x.empty() != m.empty())
            bad("map", "empty", "empty()=%d, std::map has %zu", (int)x.empty(), m.size());
        VF_OK("flat_map size()/empty() == std::map");
        for (int i = 0; i < universe; i++)
        {
            K key = KM::make(i);
            auto mit = m.find(key);
            bool present = mit != m.end();
            auto it = x.find(key);
            auto cit = cx.find(key);
            if ((it != x.end()) != present || (cit != cx.end()) != present)
                bad("map", "find", "find(key#%d) found=%d, std::map found=%d", i, (int)(it != x.end()), (int)present);
            if (present && (!equiv<C>(it->first, key) || !equiv<C>(cit->first, key) || Val<V>::id(it->second) != mit->second || Val<V>::id(cit->second) != mit->second))
                bad("map", "find-value", "find(key#%d)->second = %d, std::map has %d", i, Val<V>::id(cit->second), mit->second);
            VF_OK("flat_map find(k) == std::map for every key of the universe");
            if (cx.count(key) != m.count(key))
                bad("map", "count", "count(key#%d)=%zu, std::map %zu", i, (size_t)cx.count(key), m.count(key));
            VF_OK("flat_map count(k) == std::map for every key of the universe");
            bool threw = false, cthrew = false;
            int got = 0, cgot = 0;
            try
            {
                got = Val<V>::id(x.at(key));
            }
            catch (const std::out_of_range &)
            {
                threw = true;
            }
            try
            {
                cgot = Val<V>::id(cx.at(key));
            }
            catch (const std::out_of_range &)
            {
                cthrew = true;
            }
            if (threw != !present || cthrew != !present)
                bad("map", "at-throws", "at(key#%d) threw=%d const threw=%d, key present=%d", i, (int)threw, (int)cthrew, (int)present);
            if (present && (got != mit->second || cgot != mit->second))
                bad("map", "at-value", "at(key#%d)=%d, std::map has %d", i, got, mit->second);
            VF_OK("flat_map at(k) throws iff absent, else == std::map");
        }
        Tracked::check();
        if constexpr (std::is_same_v<V, Tracked>)
        {
            if (Tracked::live_count() != live)
                bad("lifetime", "live-count", "%zu Tracked values alive, the model holds %zu", Tracked::live_count(), live);
            VF_OK("flat_map live values == entries of the model");
        }
    }
    void apply(int kind, int ki, int extra = 0)
    {
        K key = KM::make(ki);
        begin_op(MNAME[kind], ki, next);
        switch (kind)
        {
        case M_INSERT:
        {
            int id = next++;
            auto r = m.insert({key, id});
            {
                VT val(key, Val<V>::make(id));
                auto it = fm->insert(val);
                if (it == fm->end() || !equiv<C>(it->first, key) || Val<V>::id(it->second) != r.first->second)
                    bad("map", "returned-iterator", "insert(key#%d) returned an iterator to value %d, std::map holds %d", ki,
                        it == fm->end() ? -1 : Val<V>::id(it->second), r.first->second);
            }
            VF_OK("flat_map insert keeps an existing entry, returns the element");
            break;
        }
        case M_EMPLACE:
        {
            int id = next++;
            auto r = m.emplace(key, id);
            auto e = fm->emplace(key, Val<V>::make(id));
            if (e.second != r.second)
                bad("map", "emplace-inserted", "emplace(key#%d).second=%d, std::map %d", ki, (int)e.second, (int)r.second);
            if (e.first == fm->end() || !equiv<C>(e.first->first, key) || Val<V>::id(e.first->second) != r.first->second)
                bad("map", "returned-iterator", "emplace(key#%d) returned an iterator to value %d, std::map holds %d", ki,
                    e.first == fm->end() ? -1 : Val<V>::id(e.first->second), r.first->second);
            VF_OK("flat_map emplace reports inserted like std::map");
            break;
        }
        case M_INDEX_WRITE:
        {
            int id = next++;
            (*fm)[key] = Val<V>::make(id);
            m[key] = id;
            break;
        }
        case M_INDEX_READ:
        {
            int want = m[key]; // inserts 0 (the default value) like std::map
            int got = Val<V>::id((*fm)[key]);
            if (got != want)
                bad("map", "index-value", "operator[](key#%d) = %d, std::map gives %d", ki, got, want);
            VF_OK("flat_map operator[] inserts a default / returns the mapped value");
            break;
        }
        case M_AT_WRITE:
        {
            int id = next++;
            auto mit = m.find(key);
            bool threw = false;
            try
            {
                fm->at(key) = Val<V>::make(id);
            }
            catch (const std::out_of_range &)
            {
                threw = true;
            }
            if (threw != (mit == m.end()))
                bad("map", "at-throws", "at(key#%d) threw=%d, key present=%d", ki, (int)threw, (int)(mit != m.end()));
            if (mit != m.end())
                mit->second = id;
            break;
        }
        case M_CLEAR:
            fm->clear();
            m.clear();
            break;
        case M_COPY_CTOR:
        {
            FM *w = new FM(*(const FM *)fm);
            verify(*w, 2 * m.size());
            std::swap(fm, w);
            delete w;
            break;
        }
        case M_COPY_ASSIGN:
        {
            FM *w = new FM;
            if (extra)
                (*w)[KM::make(extra)] = Val<V>::make(7);
            *w = (const FM &)*fm;
            verify(*w, 2 * m.size());
            std::swap(fm, w);
            delete w;
            break;
        }
        case M_MOVE_CTOR:
        {
            FM *w = new FM(std::move(*fm));
            delete fm;
            fm = w;
            break;
        }
        case M_MOVE_ASSIGN:
        {
            FM *w = new FM;
            if (extra)
                (*w)[KM::make(extra)] = Val<V>::make(7);
            *w = std::move(*fm);
            delete fm;
            fm = w;
            break;
        }
        case M_RESERVE:
            fm->reserve((size_t)extra);
            break;
        }
        verify(*fm, m.size());
    }
    // constructor from an initializer list; keys[] may repeat (first occurrence wins in std::map)
    template <size_t... I> void ctor_il(const int *keys, std::index_sequence<I...>)
    {
        begin_op("ctor(initializer_list)", (int)sizeof...(I), 0);
        int ids[] = {0, (int)(next + I)...};
        next += sizeof...(I);
        (void)ids;
        delete fm;
        fm = nullptr;
        {
            std::initializer_list<VT> il = {VT(KM::make(keys[I]), Val<V>::make(ids[I + 1]))...};
            fm = new FM(il);
        }
        m = std::map<K, int, C>{std::pair<const K, int>(KM::make(keys[I]), ids[I + 1])...};
        verify(*fm, m.size());
    }
    void ctor_il_n(const int *keys, int n)
    {
        switch (n)
        {
        case 0:
            return ctor_il(keys, std::make_index_sequence<0>());
        case 1:
            return ctor_il(keys, std::make_index_sequence<1>());
        case 2:
            return ctor_il(keys, std::make_index_sequence<2>());
        case 3:
            return ctor_il(keys, std::make_index_sequence<3>());
        default:
            return ctor_il(keys, std::make_index_sequence<4>());
        }
    }
    // long lists of any run-time length: the std::initializer_list object is assembled from an array
    // (libstdc++ layout {const T *begin; size_t size}; checked below before it is used)
    void ctor_il_rt(const int *keys, int L)
    {
        begin_op("ctor(initializer_list)", L, 0);
        delete fm;
        fm = nullptr;
        m.clear();
        {
            std::vector<VT> arr;
            arr.reserve((size_t)L);
            for (int i = 0; i < L; i++)
            {
                int id = next++;
                arr.push_back(VT(KM::make(keys[i]), Val<V>::make(id)));
                m.insert({KM::make(keys[i]), id}); // std::map keeps the first entry of a key
            }
            struct Raw
            {
                const VT *p;
                size_t n;
            } raw{arr.data(), (size_t)L};
            std::initializer_list<VT> il;
            static_assert(sizeof(Raw) == sizeof il, "unexpected std::initializer_list layout");
            memcpy((void *)&il, &raw, sizeof il);
            if (il.size() != (size_t)L || (L && il.begin() != arr.data()))
                vf::fail("harness:initializer_list-layout", "cannot assemble a std::initializer_list of %d entries", L);
            fm = new FM(il);
        }
        verify(*fm, m.size());
    }
    void finish()
    {
        g_op = "destructor";
        Tracked::at(g_op);
        delete fm;
        fm = nullptr;
        if constexpr (std::is_same_v<V, Tracked>)
            Tracked::check_all_destroyed();
    }
};

// (a) every sequence of length <= L over {insert, emplace, []=, [], at=} x 3 keys + clear
static const int MSYM = 16;
// exceptions thrown by at() dominate the cost: quick enumerates to depth 4 for <int,int> and depth 3 for the other two
static int map_tail(int type) { return vf::thorough() ? 3 : type == 0 ? 2 : 1; }
template <class K, class V> static void map_seq(const int *sym, int len)
{
    MapHist<K, V> h;
    h.start(3);
    for (int i = 0; i < len; i++)
    {
        if (sym[i] == 15)
            h.apply(M_CLEAR, 0);
        else
            h.apply(sym[i] / 3, sym[i] % 3);
    }
    h.finish();
}
template <class K, class V> static void map_enum_t(int s0, int s1, int type)
{
    int sym[8] = {s0, s1};
    int tail = map_tail(type);
    uint64_t total = 1, n = 0;
    for (int i = 0; i < tail; i++)
        total *= MSYM;
    for (uint64_t t = 0; t < total; t++)
    {
        uint64_t x = t;
        for (int i = 0; i < tail; i++, x /= MSYM)
            sym[2 + i] = x % MSYM;
        map_seq<K, V>(sym, 2 + tail);
        n++;
    }
    vf::count_bulk(n, n);
}
static uint64_t map_enum_count() { return 3ull * MSYM * MSYM; }
static void map_enum_run(uint64_t idx)
{
    int s1 = idx % MSYM, s0 = (idx / MSYM) % MSYM, t = idx / (MSYM * MSYM);
    if (t == 0)
        map_enum_t<int, int>(s0, s1, t);
    else if (t == 1)
        map_enum_t<std::string, Tracked>(s0, s1, t);
    else
        map_enum_t<int, std::string>(s0, s1, t);
    if (idx == 37)
        vf::sample("flat_map enum: first ops %s, %s then every tail of %d ops over 16 symbols", MNAME[s0 / 3 > 4 ? 5 : s0 / 3], MNAME[s1 / 3 > 4 ? 5 : s1 / 3],
                   map_tail(t));
}
VF_SUITE(map_enumerate, map_enum_count, map_enum_run)

// (b) initializer lists: every key tuple of length <= 4 over 3 keys (duplicates included), then a few more ops
template <class K, class V> static void map_il_t(int first_key)
{
    uint64_t n = 0, dup = 0;
    for (int len = 0; len <= 4; len++)
    {
        int total = 1;
        for (int i = 0; i < len; i++)
            total *= 3;
        for (int t = 0; t < total; t++)
        {
            int keys[4] = {0, 0, 0, 0}, x = t;
            for (int i = 0; i < len; i++, x /= 3)
                keys[i] = x % 3;
            if (len && keys[0] != first_key)
                continue;
            if (!len && first_key)
                continue;
            MapHist<K, V> h;
            h.start(3);
            h.ctor_il_n(keys, len);
            VF_OK("flat_map built from an initializer list (duplicate keys included) == std::map");
            bool d = false;
            for (int i = 0; i < len; i++)
                for (int j = 0; j < i; j++)
                    d |= keys[i] == keys[j];
            dup += d;
            // the map must also stay consistent under further operations
            h.apply(M_INSERT, keys[0]);
            h.apply(M_INDEX_WRITE, (keys[1] + 1) % 3);
            h.apply(M_EMPLACE, 2);
            h.finish();
            n++;
        }
    }
    vf::count_bulk(n, dup);
}
static uint64_t map_il_count() { return 9; }
static void map_il_run(uint64_t idx)
{
    int fk = idx % 3;
    if (idx / 3 == 0)
        map_il_t<int, int>(fk);
    else if (idx / 3 == 1)
        map_il_t<std::string, Tracked>(fk);
    else
        map_il_t<int, std::string>(fk);
}
VF_SUITE(map_initlist, map_il_count, map_il_run)

// (b') long initializer lists (0..64 entries, every length) over 2..6 keys: many occurrences per key, a distinct
//      value per occurrence, so that "the first entry of a key is kept" is visible in at()/find()/operator[]
static uint64_t map_il_long_count() { return 3ull * 65 * (vf::thorough() ? 100 : 6); }
template <class K, class V> static void map_il_long_t(uint64_t idx, int L)
{
    vf::Rng r(vf::seed(), 0x11FE, idx);
    int U = r.range(2, 6);
    int keys[64];
    for (int &k : keys)
        k = (int)r.below(U);
    // sorted / reversed / random key orders all occur
    int order = r.below(4);
    if (order == 1)
        std::sort(keys, keys + L);
    else if (order == 2)
        std::sort(keys, keys + L, std::greater<int>());
    MapHist<K, V> h;
    h.start(U);
    h.ctor_il_rt(keys, L);
    VF_OK("flat_map built from a long initializer list (up to 64 entries, repeated keys, distinct values) == std::map");
    h.apply(M_INDEX_READ, (int)r.below(U));
    h.apply(M_INSERT, (int)r.below(U));
    h.apply(M_AT_WRITE, (int)r.below(U));
    h.finish();
    vf::count_case(vf::mix(vf::hash_bytes(keys, sizeof(int) * L, L), idx % 3), L > 0);
    if (vf::want_sample() && L == 24 && order == 0)
        vf::sample("flat_map long initializer list: %s, %d entries over %d keys", MapHist<K, V>::flav().c_str(), L, U);
}
static void map_il_long_run(uint64_t idx)
{
    int type = idx % 3, L = (idx / 3) % 65;
    if (type == 0)
        map_il_long_t<int, int>(idx, L);
    else if (type == 1)
        map_il_long_t<std::string, Tracked>(idx, L);
    else
        map_il_long_t<int, std::string>(idx, L);
}
VF_SUITE(map_initlist_long, map_il_long_count, map_il_long_run)

// (c) random histories over 6 keys
static uint64_t map_rand_count() { return vf::thorough() ? 300000 : 3000; }
template <class K, class V, class C = std::less<K>, class KM = Key<K>> static void map_rand_t(uint64_t idx)
{
    vf::Rng r(vf::seed(), 0xC02F, idx);
    MapHist<K, V, C, KM> h;
    int U = (idx / 6) % 2 ? 12 : 6; // the larger universe lets the map grow beyond 8 entries
    h.start(U);
    uint64_t hh = vf::mix(idx % 6, 0xF1A7 + U);
    if (r.chance(1, 3))
    {
        int keys[4], n = r.range(0, 4);
        for (int &k : keys)
            k = r.below(U);
        h.ctor_il_n(keys, n);
        hh = vf::mix(hh, vf::hash_bytes(keys, sizeof keys, n));
    }
    for (int step = 0; step < 60; step++)
    {
        int kind = r.chance(3, 4) ? (int)r.below(5) : 5 + (int)r.below(M_NKINDS - 5);
        int ki = r.below(U), extra = r.below(7);
        h.apply(kind, ki, extra);
        VF_MAX("flat_map largest size reached", h.m.size());
        hh = vf::mix(hh, vf::mix(kind, vf::mix(ki, extra)));
    }
    h.finish();
    vf::count_case(hh, true);
    if (vf::want_sample() && idx % 97 == 3)
        vf::sample("flat_map random: %s %.300s", MapHist<K, V, C, KM>::flav().c_str(), g_trace.c_str());
}
static void map_rand_run(uint64_t idx)
{
    switch (idx % 6)
    {
    case 0:
        return map_rand_t<int, int>(idx);
    case 1:
        return map_rand_t<std::string, Tracked>(idx);
    case 2:
        return map_rand_t<int, std::string>(idx);
    case 3:
        VF_OK("flat_map / flat_set with a comparator whose equivalence is coarser than operator==");
        return map_rand_t<std::string, int, CaseLess, CiKeys>(idx);
    case 4:
        return map_rand_t<Rec, std::string, ById, RecKeys>(idx);
    default:
        return map_rand_t<int, int, std::greater<int>>(idx);
    }
}
VF_SUITE(map_random, map_rand_count, map_rand_run)

// ------------------------------------------------------------ flat_set
template <class K, class C = std::less<K>, class KM = Key<K>> struct SetHist
{
    using FS = igris::flat_set<K, C>;
    FS *fs = nullptr;
    std::set<K, C> m;
    int universe = 4;
    static const std::string &flav()
    {
        static const std::string f = std::string("flat_set<") + KM::name + CmpName<C>::get() + ">";
        return f;
    }
    void start(int universe_, int ctor)
    {
        g_flav = flav();
        Tracked::reset(flav().c_str());
        g_trace.clear();
        begin_op(ctor == 0 ? "ctor()" : ctor == 1 ? "ctor(Compare)" : "ctor(Allocator)", 0, 0);
        if (ctor == 0)
            fs = new FS;
        else if (ctor == 1)
            fs = new FS(C());
        else
            fs = new FS(std::allocator<K>());
        m.clear();
        universe = universe_;
        verify(*fs);
    }
    void verify(FS &x)
    {
        const FS &cx = x;
        if (cx.size() != m.size())
            bad("set", "size", "size()=%zu, std::set has %zu", (size_t)cx.size(), m.size());
        VF_OK("flat_set size() == std::set");
        for (int i = 0; i < universe; i++)
        {
            K key = KM::make(i);
            if (cx.count(key) != m.count(key))
                bad("set", "count", "count(key#%d)=%zu, std::set %zu", i, (size_t)cx.count(key), m.count(key));
            VF_OK("flat_set count(k) == std::set for every key of the universe");
        }
    }
    // 0..universe-1: insert key; then clear, copy-ctor, copy-assign, move-ctor, move-assign
    void apply(int sym)
    {
        if (sym < universe)
        {
            begin_op("insert", sym, 0);
            K key = KM::make(sym);
            fs->insert(key);
            m.insert(key);
        }
        else
            switch (sym - universe)
            {
            case 0:
                begin_op("clear", 0, 0);
                fs->clear();
                m.clear();
                break;
            case 1:
            {
                begin_op("copy-ctor", 0, 0);
                FS *w = new FS(*(const FS *)fs);
                verify(*w);
                std::swap(fs, w);
                delete w;
                break;
            }
            case 2:
            {
                begin_op("copy-assign", 0, 0);
                FS *w = new FS;
                w->insert(KM::make(1));
                *w = (const FS &)*fs;
                verify(*w);
                std::swap(fs, w);
                delete w;
                break;
            }
            case 3:
            {
                begin_op("move-ctor", 0, 0);
                FS *w = new FS(std::move(*fs));
                delete fs;
                fs = w;
                break;
            }
            default:
            {
                begin_op("move-assign", 0, 0);
                FS *w = new FS;
                w->insert(KM::make(2));
                *w = std::move(*fs);
                delete fs;
                fs = w;
                break;
            }
            }
        verify(*fs);
    }
    void finish()
    {
        delete fs;
        fs = nullptr;
    }
};
// every sequence of length 6 over {insert k0..k3, clear}: case = first two symbols x constructor kind x key type
static uint64_t set_enum_count() { return 2ull * 3 * 25; }
template <class K> static void set_enum_t(int ctor, int s0, int s1)
{
    int tail = vf::thorough() ? 6 : 4;
    uint64_t total = 1;
    for (int i = 0; i < tail; i++)
        total *= 5;
    for (uint64_t t = 0; t < total; t++)
    {
        SetHist<K> h;
        h.start(4, ctor);
        h.apply(s0);
        h.apply(s1);
        uint64_t x = t;
        for (int i = 0; i < tail; i++, x /= 5)
            h.apply(x % 5);
        h.finish();
    }
    vf::count_bulk(total, total);
}
static void set_enum_run(uint64_t idx)
{
    int s1 = idx % 5, s0 = (idx / 5) % 5, ctor = (idx / 25) % 3, t = idx / 75;
    if (t == 0)
        set_enum_t<int>(ctor, s0, s1);
    else
        set_enum_t<std::string>(ctor, s0, s1);
}
VF_SUITE(set_enumerate, set_enum_count, set_enum_run)

static uint64_t set_rand_count() { return vf::thorough() ? 150000 : 1500; }
template <class K, class C = std::less<K>, class KM = Key<K>> static void set_rand_t(uint64_t idx)
{
    vf::Rng r(vf::seed(), 0xC025, idx);
    SetHist<K, C, KM> h;
    int ctor = r.below(3);
    h.start(12, ctor);
    uint64_t hh = vf::mix(idx % 5, ctor);
    for (int step = 0; step < 60; step++)
    {
        int sym = r.chance(7, 8) ? (int)r.below(12) : 12 + (int)r.below(5);
        h.apply(sym);
        hh = vf::mix(hh, sym);
    }
    h.finish();
    vf::count_case(hh, true);
}
static void set_rand_run(uint64_t idx)
{
    switch (idx % 5)
    {
    case 0:
        return set_rand_t<int>(idx);
    case 1:
        return set_rand_t<std::string>(idx);
    case 2:
        VF_OK("flat_map / flat_set with a comparator whose equivalence is coarser than operator==");
        return set_rand_t<std::string, CaseLess, CiKeys>(idx);
    case 3:
        return set_rand_t<Rec, ById, RecKeys>(idx);
    default:
        return set_rand_t<int, std::greater<int>>(idx);
    }
}
VF_SUITE(set_random, set_rand_count, set_rand_run)

extern "C" void vf_setup()
{
    for (const char *c : {"flat_map size()/empty() == std::map", "flat_map find(k) == std::map for every key of the universe",
                          "flat_map count(k) == std::map for every key of the universe", "flat_map at(k) throws iff absent, else == std::map",
                          "flat_map live values == entries of the model", "flat_map insert keeps an existing entry, returns the element",
                          "flat_map emplace reports inserted like std::map", "flat_map operator[] inserts a default / returns the mapped value",
                          "flat_map built from an initializer list (duplicate keys included) == std::map",
                          "flat_map built from a long initializer list (up to 64 entries, repeated keys, distinct values) == std::map",
                          "flat_set size() == std::set", "flat_map / flat_set with a comparator whose equivalence is coarser than operator==",
                          "flat_set count(k) == std::set for every key of the universe"})
        vf::require(c);
}
