// C02 units "vector"/"portable": vector<int> suites
#include "c02_vec.h"
C02_VEC_SUITES(int, int)
