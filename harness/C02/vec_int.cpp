// C02 units "vector"/"portable": vector<int> suites
#include "c02_vec.h"
C02_VEC_SUITES(int, int)
// element types with mixed triviality (kept in this TU: vector<int> is the cheapest one to compile)
C02_VEC_SUITES(c02::TrivAssign, trivassign)
VF_SUITE(random_trivlife, c02::rand_count, c02::rand_run_t<c02::TrivLife>)
