// C02 units "vector"/"portable": vector<Throwing>: element constructors that throw on schedule (fault injection)
#include "c02_vec.h"
C02_VEC_FAULT_SUITES(throwing)
