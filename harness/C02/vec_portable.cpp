// C02 unit "portable": the igris::vector twin inside igris/container/std_portable.h.
// std_portable.h redefines igris::vector, igris::move, igris::constructor ... so it cannot share a
// binary with vector.h (one-definition rule); it does compile next to the host libstdc++.
#include <cassert> // before vf.h: vf.h defines __assert_fail and must see the libc declaration first
#define VF_MAIN
#include "vf.h"
#include <igris/container/std_portable.h>
// erase(first,last) of the twin calls a three-argument igris::move; it only instantiates where that exists
template <class P> constexpr bool c02_has_move3 = requires(P p) { igris::move(p, p, p); };
struct Fam
{
    static constexpr const char *name = "portable.vector";
    template <class T> static constexpr bool range_erase = c02_has_move3<T *>;
    static constexpr bool std_iters = false; // igris::distance dispatches on igris' own iterator tags
};
#include "c02_vec.h"
extern "C" void vf_setup() { c02::require_vector_clauses(); }
