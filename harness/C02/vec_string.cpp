// C02 units "vector"/"portable": vector<std::string> suites
#include "c02_vec.h"
C02_VEC_SUITES(std::string, string)
