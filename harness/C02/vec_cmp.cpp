// C02 units "vector"/"portable": comparison operators on element types where bytewise and semantic
// equality differ: float / double / long double (+0.0 == -0.0, NaN != NaN, NaN payloads) and a
// struct whose operator== ignores one member and that has padding bytes.
// Reference: std::vector of the same values.
#include "c02_vec.h"
#include <cmath>
#include <cstring>
#include <limits>

namespace c02
{
    // ---- value pools
    template <class F> static F nan_payload()
    {
        if constexpr (std::is_same_v<F, float>)
            return std::nanf("0x1234");
        else if constexpr (std::is_same_v<F, double>)
            return std::nan("0x1234");
        else
            return std::nanl("0x1234");
    }
    template <class F> static std::vector<F> float_pool()
    {
        using L = std::numeric_limits<F>;
        return {F(0.0),         -F(0.0),         L::quiet_NaN(),    -L::quiet_NaN(), nan_payload<F>(), L::infinity(),
                -L::infinity(), L::denorm_min(), -L::denorm_min(), F(1.0),          std::nextafter(F(1.0), F(2.0)), F(-1.0)};
    }
    struct Loose
    {
        char tag;    // followed by padding bytes
        int key;     // the only member the comparisons look at
        int ignored; // differs between "equal" objects
        friend bool operator==(const Loose &a, const Loose &b) { return a.key == b.key; }
        friend bool operator!=(const Loose &a, const Loose &b) { return a.key != b.key; }
        friend bool operator<(const Loose &a, const Loose &b) { return a.key < b.key; }
    };
    static Loose loose(char tag, int key, int ignored)
    {
        Loose l;
        memset((void *)&l, tag, sizeof l); // padding bytes differ with the tag
        l.tag = tag;
        l.key = key;
        l.ignored = ignored;
        return l;
    }
    static std::vector<Loose> loose_pool() { return {loose('a', 1, 10), loose('b', 1, 20), loose('a', 2, 10), loose('c', 2, 30), loose('a', 0, 10), loose('z', 3, 7)}; }

    template <class T> struct Name;
    template <> struct Name<float> { static constexpr const char *v = "float"; };
    template <> struct Name<double> { static constexpr const char *v = "double"; };
    template <> struct Name<long double> { static constexpr const char *v = "long double"; };
    template <> struct Name<Loose> { static constexpr const char *v = "Loose"; };

    template <class T> static std::string render(const std::vector<T> &pool, const std::vector<int> &ix)
    {
        std::string s = "[";
        for (size_t i = 0; i < ix.size(); i++)
        {
            char b[64];
            if constexpr (std::is_floating_point_v<T>)
                snprintf(b, sizeof b, "%s%Lg", i ? "," : "", (long double)pool[ix[i]]);
            else
                snprintf(b, sizeof b, "%s{%c,%d,%d}", i ? "," : "", pool[ix[i]].tag, pool[ix[i]].key, pool[ix[i]].ignored);
            s += b;
        }
        return s + "]";
    }
    // compare igris::vector<T> built from pool[ia...] / pool[ib...] with std::vector<T> of the same values
    template <class T> static void cmp_pair(const std::vector<T> &pool, const std::vector<int> &ia, const std::vector<int> &ib)
    {
        using V = igris::vector<T>;
        static const std::string flav = std::string(Fam::name) + "<" + Name<T>::v + ">";
        vf::cls((flav + ":compare").c_str());
        V a, b;
        std::vector<T> ra, rb;
        for (int i : ia)
        {
            a.push_back(pool[i]);
            ra.push_back(pool[i]);
        }
        for (int i : ib)
        {
            b.push_back(pool[i]);
            rb.push_back(pool[i]);
        }
        const V &ca = a, &cb = b;
        auto fail = [&](const char *opname, bool got, bool want) {
            vf::fail(("cmp:" + flav + ":compare:" + opname).c_str(), "%s %s %s gives %d, std::vector gives %d", render(pool, ia).c_str(), opname,
                     render(pool, ib).c_str(), (int)got, (int)want);
        };
        if ((ca == cb) != (ra == rb))
            fail("==", ca == cb, ra == rb);
        if ((cb == ca) != (rb == ra))
            fail("==", cb == ca, rb == ra);
        if ((ca != cb) != (ra != rb))
            fail("!=", ca != cb, ra != rb);
        if ((ca == ca) != (ra == ra)) // false when a NaN is inside, for both
            fail("==", ca == ca, ra == ra);
        if ((ca != ca) != (ra != ra))
            fail("!=", ca != ca, ra != ra);
        VF_OK("== / != on element types where bytewise and semantic equality differ agree with std::vector");
        if constexpr (has_less<V>)
        {
            // Reference for the ordering: std::lexicographical_compare, which IS std::vector::operator< up to C++17.
            // (Compiled as C++20, libstdc++ derives vector's < from <=>, which answers "unordered" -> false as soon
            // as a NaN pair is met; that differs from the C++17 definition only for NaN elements and is not what a
            // C++17 library can be held to. First run of this suite: [nan] < [0,0] was flagged for that reason.)
            bool lt = std::lexicographical_compare(ra.begin(), ra.end(), rb.begin(), rb.end());
            bool gt = std::lexicographical_compare(rb.begin(), rb.end(), ra.begin(), ra.end());
            if ((ca < cb) != lt)
                fail("<", ca < cb, lt);
            if ((cb < ca) != gt)
                fail("<", cb < ca, gt);
            VF_OK("< on floating-point / loose-equality element types agrees with std::vector");
        }
    }
    // case idx = first vector (all index tuples of length 0..2 over the pool); inner loop = every second vector of length 0..2
    template <class T> static std::vector<T> pool_of()
    {
        if constexpr (std::is_floating_point_v<T>)
            return float_pool<T>();
        else
            return loose_pool();
    }
    static std::vector<int> tuple_of(uint64_t idx, size_t P)
    {
        if (idx == 0)
            return {};
        idx -= 1;
        if (idx < P)
            return {(int)idx};
        idx -= P;
        return {(int)(idx / P), (int)(idx % P)};
    }
    template <class T> static uint64_t cmp_count()
    {
        size_t P = pool_of<T>().size();
        return 1 + P + P * P;
    }
    template <class T> static void cmp_run(uint64_t idx)
    {
        std::vector<T> pool = pool_of<T>();
        size_t P = pool.size();
        uint64_t total = 1 + P + P * P;
        std::vector<int> ia = tuple_of(idx, P);
        for (uint64_t j = 0; j < total; j++)
            cmp_pair<T>(pool, ia, tuple_of(j, P));
        // a few longer random pairs: equal up to position k, then one pool substitution
        vf::Rng r(vf::seed(), 0xC3B, idx * 8 + sizeof(T));
        for (int t = 0; t < (vf::thorough() ? 200 : 12); t++)
        {
            std::vector<int> a, b;
            int n = r.range(3, 9);
            for (int i = 0; i < n; i++)
                a.push_back((int)r.below(P));
            b = a;
            if (r.chance(3, 4))
                b[r.below(b.size())] = (int)r.below(P);
            if (r.chance(1, 4))
                b.pop_back();
            cmp_pair<T>(pool, a, b);
        }
        vf::count_bulk(total, total);
        if (vf::want_sample() && idx == 17)
            vf::sample("compare: %s<%s> first vector %s against every vector of length 0..2 over a pool of %zu values", Fam::name, Name<T>::v,
                       render(pool, ia).c_str(), P);
    }
} // namespace c02
VF_SUITE(compare_float, c02::cmp_count<float>, c02::cmp_run<float>)
VF_SUITE(compare_double, c02::cmp_count<double>, c02::cmp_run<double>)
VF_SUITE(compare_long_double, c02::cmp_count<long double>, c02::cmp_run<long double>)
VF_SUITE(compare_loose, c02::cmp_count<c02::Loose>, c02::cmp_run<c02::Loose>)
