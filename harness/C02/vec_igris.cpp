// C02 unit "vector": igris/container/vector.h against std::vector.
#include <cassert> // before vf.h: vf.h defines __assert_fail and must see the libc declaration first
#define VF_MAIN
#include "vf.h"
#include <igris/container/vector.h>
struct Fam
{
    static constexpr const char *name = "vector";
    template <class T> static constexpr bool range_erase = true;
    static constexpr bool std_iters = true;
};
#include "c02_vec.h"
extern "C" void vf_setup() { c02::require_vector_clauses(); }
