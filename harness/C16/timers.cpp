// C16 — timer_manager / stimer under enumerated and random plan/unplan/exec histories in virtual time.
// Every callback invocation is checked online against a reference scheduler written from the statement
// (set of pending timers with start/interval; ties in any order), callbacks run scripted actions
// (nothing, unplan self, unplan other, re-plan self, plan other); after every step is_planned / finish /
// empty / minimal_interval are compared with the reference. Timers and the manager are individual heap
// objects (ASan), the callbacks go through all delegate flavours of igris/event/delegate.h.
#define VF_MAIN
#include <cassert> // before vf.h: its __assert_fail definition must follow the libc declaration
#include "vf.h"
#include <igris/datastruct/stimer.h>
#include <igris/sync/syslock.h>
#include <igris/time/timer_manager.h>
#include <string>
#include <vector>

namespace
{
    enum
    {
        TMAX = 8
    };
    enum Act
    {
        A_NOTHING,
        A_UNPLAN_SELF,
        A_UNPLAN_OTHER,
        A_REPLAN_SELF,
        A_PLAN_OTHER,
        A_COUNT
    };
    const char *act_name(int a)
    {
        static const char *n[] = {"nothing", "unplan-self", "unplan-other", "replan-self", "plan-other"};
        return n[a];
    }
    enum Kind
    {
        K_PLAN,
        K_SETACT,
        K_UNPLAN,
        K_EXEC,
        K_COUNT
    };
    struct Op
    {
        int kind, tim, a, b; // PLAN: a=interval b=start offset; SETACT: a=action; EXEC: a=dt
    };
    std::string describe(const Op &o)
    {
        char b[96];
        switch (o.kind)
        {
        case K_PLAN:
            snprintf(b, sizeof b, "plan(t%d, start=now%+d, interval=%d)", o.tim, o.b, o.a);
            break;
        case K_SETACT:
            snprintf(b, sizeof b, "callback(t%d):=%s", o.tim, act_name(o.a));
            break;
        case K_UNPLAN:
            snprintf(b, sizeof b, "unplan(t%d)", o.tim);
            break;
        default:
            snprintf(b, sizeof b, "exec(now+=%d)", o.a);
        }
        return b;
    }

    struct World;
    World *cur = nullptr;
    void fired(int id);

    // the four ways a callback can be attached
    void cb_plain(int id) { fired(id); }
    void cb_ext(void *ctx, int id)
    {
        if (ctx != (void *)&cur)
            vf::fail_nothrow("delegate:wrong-context", "external-function delegate passed a different context pointer");
        fired(id);
    }
    struct Host
    {
        int salt = 0x5A17;
        void cb(int id)
        {
            if (salt != 0x5A17)
                vf::fail_nothrow("delegate:wrong-object", "method delegate called on a different object");
            fired(id);
        }
    };
    struct OwnTimer : igris::timer_head
    {
        int id;
        explicit OwnTimer(int i) : id(i) {}
        void execute() override { fired(id); }
    };

    struct World
    {
        int NT;
        int64_t now = 1000;
        igris::timer_manager *mgr;
        igris::timer_head *tim[TMAX];
        Host *host;
        // reference scheduler
        bool planned[TMAX];
        int64_t start[TMAX], interval[TMAX];
        int action[TMAX];
        // per exec
        bool in_exec = false, failed = false, runaway = false;
        long fired_in_exec = 0, plans_in_exec = 0;
        const std::vector<Op> *hist = nullptr;
        size_t upto = 0;
        uint64_t variant = 0;
        std::string optag = "setup";

        explicit World(int nt) : NT(nt)
        {
            syslock_reset();
            mgr = new igris::timer_manager;
            host = new Host;
            for (int i = 0; i < NT; i++)
            {
                switch (i % 4)
                {
                case 0:
                    tim[i] = new igris::timer<int>(igris::make_delegate(cb_plain), (int)i);
                    break;
                case 1:
                    tim[i] = new igris::timer<int>(igris::make_delegate(cb_ext, (void *)&cur), (int)i);
                    break;
                case 2:
                    tim[i] = new igris::timer<int>(igris::make_delegate(&Host::cb, host), (int)i);
                    break;
                default:
                    tim[i] = new OwnTimer(i);
                }
                planned[i] = false;
                start[i] = 0;
                interval[i] = 1;
                action[i] = A_NOTHING;
            }
            cur = this;
        }
        int64_t deadline(int i) const { return start[i] + interval[i]; }
        std::string history_text() const
        {
            std::string s;
            if (!hist)
                return s;
            for (size_t i = 0; i < upto && i < hist->size(); i++)
            {
                if (i)
                    s += "; ";
                s += describe((*hist)[i]);
            }
            if (s.size() > 1100)
                s = "... " + s.substr(s.size() - 1100);
            return s;
        }
        std::string pending_text() const
        {
            std::string s = "reference pending {";
            for (int i = 0; i < NT; i++)
                if (planned[i])
                    s += " t" + std::to_string(i) + "@" + std::to_string(deadline(i) - 1000) + "/" + std::to_string(interval[i]);
            return s + " } now=" + std::to_string(now - 1000);
        }
        void violation(const char *clause, const char *fmt, ...) __attribute__((format(printf, 3, 4)))
        {
            char msg[400];
            va_list ap;
            va_start(ap, fmt);
            vsnprintf(msg, sizeof msg, fmt, ap);
            va_end(ap);
            char key[180];
            snprintf(key, sizeof key, "%s:%s", clause, optag.c_str());
            failed = true;
            vf::fail_nothrow(key, "%s | %s | timers=%d (times relative to 1000) history(%zu ops): %s", msg, pending_text().c_str(), NT, upto,
                             history_text().c_str());
        }
        void settle()
        {
            if (failed)
                throw vf::CaseFailed();
        }
        // ---- operations on igris + reference
        void plan_both(int i, int64_t st, int64_t iv, bool two_step)
        {
            if (two_step)
            {
                tim[i]->set_start(st);
                tim[i]->set_interval(iv);
                mgr->plan(*tim[i]);
            }
            else
                mgr->plan(*tim[i], st, iv);
            planned[i] = true;
            start[i] = st;
            interval[i] = iv;
        }
        void unplan_both(int i)
        {
            tim[i]->unplan();
            planned[i] = false;
        }
        void on_fired(int id)
        {
            fired_in_exec++;
            if (!in_exec)
                violation("fired-outside-exec", "t%d fired outside exec()", id);
            if (fired_in_exec > 20000 && !runaway)
            {
                runaway = true;
                violation("exec-runaway", "more than 20000 callbacks in one exec()");
            }
            if (runaway)
            {
                // drain: take everything out so that exec() can return and the case can be reported
                for (int i = 0; i < NT; i++)
                    tim[i]->unplan();
                return;
            }
            if (!planned[id])
            {
                violation("fired-while-unplanned", "t%d fired but is not planned in the reference", id);
                return;
            }
            VF_OK("an unplanned timer never fires (every firing timer is pending in the reference)");
            if (deadline(id) > now)
                violation("fired-early", "t%d fired at now=%lld, %lld before its deadline", id, (long long)(now - 1000), (long long)(deadline(id) - now));
            VF_OK("never fires before start+interval");
            for (int j = 0; j < NT; j++)
                if (planned[j] && deadline(j) < deadline(id))
                    violation("fired-out-of-order", "t%d (deadline %lld) fired while t%d (deadline %lld) is pending", id, (long long)(deadline(id) - 1000), j,
                              (long long)(deadline(j) - 1000));
            VF_OK("each fired timer has the minimum deadline of the pending set at that moment");
            static int act_ids[A_COUNT];
            static bool have;
            if (!have)
            {
                for (int a = 0; a < A_COUNT; a++)
                    act_ids[a] = vf::clause_id((std::string("callback action ") + act_name(a)).c_str());
                have = true;
            }
            int a = action[id], other = (id + 1) % NT;
            if ((a == A_REPLAN_SELF || a == A_PLAN_OTHER) && plans_in_exec >= 4)
                a = A_NOTHING; // bounded so that two timers cannot keep each other due forever
            vf::clause_hit(act_ids[a]);
            switch (a)
            {
            case A_UNPLAN_SELF:
                unplan_both(id);
                break;
            case A_UNPLAN_OTHER:
                unplan_both(other);
                break;
            case A_REPLAN_SELF:
                plans_in_exec++;
                plan_both(id, now + (fired_in_exec & 1), interval[id], fired_in_exec & 2);
                break;
            case A_PLAN_OTHER:
                plans_in_exec++;
                plan_both(other, now - 1, interval[other], fired_in_exec & 2);
                break;
            }
            // reference: a timer still planned when its callback returns is re-armed at its deadline + interval
            if (planned[id])
                start[id] += interval[id];
        }
        void apply(const Op &o, uint64_t v)
        {
            variant = v;
            switch (o.kind)
            {
            case K_PLAN:
                optag = planned[o.tim] ? "plan@already-planned" : "plan";
                plan_both(o.tim, now + o.b, o.a, v & 1);
                break;
            case K_SETACT:
                optag = "set-callback";
                action[o.tim] = o.a;
                break;
            case K_UNPLAN:
                optag = planned[o.tim] ? "unplan" : "unplan@not-planned";
                unplan_both(o.tim);
                break;
            case K_EXEC:
            {
                now += o.a;
                bool any_act = false;
                for (int i = 0; i < NT; i++)
                    if (planned[i] && action[i] != A_NOTHING)
                        any_act = true;
                optag = any_act ? "exec@scripted-callbacks" : "exec";
                vf::cls(("timer_manager:" + optag).c_str());
                in_exec = true;
                fired_in_exec = plans_in_exec = 0;
                mgr->exec(now);
                in_exec = false;
                for (int j = 0; j < NT; j++)
                    if (planned[j] && deadline(j) <= now)
                    {
                        violation("due-timer-not-fired", "exec(%lld) returned while t%d is due since %lld", (long long)(now - 1000), j,
                                  (long long)(deadline(j) - 1000));
                        break;
                    }
                VF_OK("at the return of exec(now) no pending timer is due");
                if (fired_in_exec)
                    VF_OK("exec() that fired at least one callback");
                if (fired_in_exec >= 2)
                    VF_OK("exec() that fired several callbacks (ordering observable)");
                VF_MAX("most callbacks in one exec()", fired_in_exec);
                break;
            }
            }
            vf::cls(("timer_manager:" + optag).c_str());
        }
        void check()
        {
            bool any = false;
            int64_t mind = 0;
            uint64_t sh = 0xC16;
            int coarse[4 + A_COUNT] = {0};
            for (int i = 0; i < NT; i++)
            {
                bool p = tim[i]->is_planned();
                if (p != planned[i])
                    violation("is_planned!=reference", "t%d: is_planned()=%d, reference %d", i, (int)p, (int)planned[i]);
                else if (p && tim[i]->finish() != deadline(i))
                    violation("deadline!=reference", "t%d: finish()=%lld, reference deadline %lld", i, (long long)(tim[i]->finish() - 1000),
                              (long long)(deadline(i) - 1000));
                if (planned[i] && (!any || deadline(i) < mind))
                    mind = deadline(i);
                any |= planned[i];
                // scheduler state: per timer {unplanned | rank of its deadline among the pending ones (ties share a rank)},
                // whether it lies in the past, and its scripted action
                int rank = 0;
                for (int j = 0; j < NT; j++)
                    if (planned[i] && planned[j] && deadline(j) < deadline(i))
                        rank++;
                if (NT <= 3)
                {
                    sh = vf::mix(sh, planned[i] ? (uint64_t)(rank * 4 + (deadline(i) - now <= interval[i] ? 1 : 0) + (deadline(i) - now <= 1 ? 2 : 0)) : 0x77);
                    sh = vf::mix(sh, (uint64_t)action[i]);
                }
                else if (planned[i])
                    coarse[rank < 3 ? rank : 3]++, coarse[4 + action[i]]++; // larger worlds: histogram of ranks and of pending actions
            }
            VF_OK("pending set (is_planned of every timer) == reference");
            VF_OK("deadline (finish) of every pending timer == reference: re-armed at exactly previous deadline + interval");
            settle();
            if (mgr->empty() == any)
                violation("empty!=reference", "empty()=%d, reference has %s pending timers", (int)mgr->empty(), any ? "some" : "no");
            VF_OK("empty() == reference");
            if (any)
            {
                int64_t mi = mgr->minimal_interval(now);
                if (mi != mind - now)
                    violation("minimal_interval!=reference", "minimal_interval(now)=%lld, reference %lld", (long long)mi, (long long)(mind - now));
                VF_OK("minimal_interval(now) == time to the earliest reference deadline");
            }
            settle();
            if (NT > 3)
                for (int c : coarse)
                    sh = vf::mix(sh, (uint64_t)c);
            vf::state(vf::mix(sh, (uint64_t)NT));
        }
        void teardown(uint64_t v)
        {
            // timers and manager die in either order while timers are still planned
            optag = "teardown";
            vf::cls("timer_manager:teardown");
            if (v & 1)
            {
                delete mgr;
                mgr = nullptr;
                for (int i = 0; i < NT; i++)
                    if (tim[i]->is_planned())
                        violation("planned-after-manager-destroyed", "t%d still linked after the manager was destroyed", i);
                VF_OK("destroying the manager unlinks every pending timer");
            }
            for (int i = 0; i < NT; i++)
            {
                int k = (v & 2) ? NT - 1 - i : i;
                delete tim[k];
                planned[k] = false;
                if (mgr)
                {
                    bool any = false;
                    for (int j = 0; j < NT; j++)
                        any |= planned[j];
                    if (mgr->empty() == any)
                        violation("empty!=reference", "after deleting t%d: empty()=%d, reference has %s pending timers", k, (int)mgr->empty(), any ? "some" : "no");
                }
            }
            if (mgr)
                VF_OK("destroying a pending timer removes it from the manager");
            delete mgr;
            delete host;
            cur = nullptr;
            settle();
        }
    };
    void fired(int id)
    {
        if (cur)
            cur->on_fired(id);
    }

    // ------------------------------------------------------------------ exhaustive histories
    const int IVS[3] = {1, 2, 5}, OFFS[2] = {0, -3}, DTS[4] = {0, 1, 3, 20};
    enum
    {
        DN = 3
    };
    // alphabet: PLAN 3*3*2, SETACT 3*5, UNPLAN 3, EXEC 4
    const int A_PLAN = DN * 3 * 2, A_SET = (int)DN * (int)A_COUNT, A_UNP = DN, A_EXE = 4, ALPHA = A_PLAN + A_SET + A_UNP + A_EXE;
    Op decode(int c)
    {
        if (c < A_PLAN)
            return Op{K_PLAN, c / 6, IVS[(c / 2) % 3], OFFS[c % 2]};
        c -= A_PLAN;
        if (c < A_SET)
            return Op{K_SETACT, c / A_COUNT, c % A_COUNT, 0};
        c -= A_SET;
        if (c < A_UNP)
            return Op{K_UNPLAN, c, 0, 0};
        c -= A_UNP;
        return Op{K_EXEC, 0, DTS[c], 0};
    }
    uint64_t variant_of(const std::vector<int> &h, size_t i)
    {
        uint64_t x = vf::mix(vf::seed(), 0xC16);
        for (size_t k = 0; k <= i; k++)
            x = vf::mix(x, (uint64_t)h[k]);
        return x;
    }
    bool nontrivial(const std::vector<Op> &ops)
    {
        bool plan = false, exec_after = false;
        for (auto &o : ops)
        {
            if (o.kind == K_PLAN)
                plan = true;
            if (o.kind == K_EXEC && plan)
                exec_after = true;
        }
        return exec_after;
    }
    bool run_history(const std::vector<int> &h)
    {
        std::vector<Op> ops;
        for (int c : h)
            ops.push_back(decode(c));
        World *w = new World(DN);
        w->hist = &ops;
        try
        {
            for (size_t i = 0; i < ops.size(); i++)
            {
                if (vf::verbose())
                    printf("  op %zu: %s\n", i, describe(ops[i]).c_str());
                w->upto = i + 1;
                w->apply(ops[i], variant_of(h, i));
                w->settle();
                if (i + 1 == ops.size())
                    w->check(); // the prefix was checked when it was the end of a shorter history
            }
            vf::count_case(vf::hash_bytes(h.data(), h.size() * sizeof(int), 0xD0), nontrivial(ops));
            w->teardown(h.empty() ? 0 : variant_of(h, h.size() - 1) >> 7);
            delete w;
            return true;
        }
        catch (vf::CaseFailed &)
        {
            cur = nullptr;
            return false; // leak the world
        }
    }
    void dfs(std::vector<int> &h, int maxdepth)
    {
        if (!run_history(h))
            return;
        if ((int)h.size() >= maxdepth)
            return;
        // thorough: the deepest level is a seeded 1/4 sample
        int den = (vf::thorough() && (int)h.size() + 1 == maxdepth) ? 4 : 1;
        uint64_t hh = den > 1 ? vf::hash_bytes(h.data(), h.size() * sizeof(int), vf::seed()) : 0;
        for (int c = 0; c < ALPHA; c++)
        {
            if (den > 1 && vf::mix(hh, (uint64_t)c) % (uint64_t)den != 0)
                continue;
            h.push_back(c);
            dfs(h, maxdepth);
            h.pop_back();
        }
    }
    int depth() { return vf::thorough() ? 5 : 4; }
    uint64_t limited(const char *suite, uint64_t n)
    {
        const char *only = getenv("C16_ONLY"), *mx = getenv("C16_MAXCASES");
        if (only && *only && !strstr(suite, only))
            return 0;
        if (mx && *mx && strtoull(mx, nullptr, 0) < n)
            return strtoull(mx, nullptr, 0);
        return n;
    }
    uint64_t dfs_count() { return limited("dfs", (uint64_t)ALPHA * ALPHA); }
    void dfs_run(uint64_t idx)
    {
        std::vector<int> h;
        if (idx == 0)
            run_history(h);
        int a1 = (int)(idx / ALPHA), a2 = (int)(idx % ALPHA);
        h.push_back(a1);
        if (a2 == 0 && !run_history(h))
            return;
        h.push_back(a2);
        dfs(h, depth());
    }
    VF_SUITE(timers_dfs, dfs_count, dfs_run)

    // ------------------------------------------------------------------ random histories
    uint64_t rnd_count() { return limited("rnd", vf::thorough() ? 300000 : 3000); }
    void rnd_run(uint64_t idx)
    {
        vf::Rng r(vf::seed(), 0xC1600, idx);
        int NT = r.range(2, TMAX);
        int mode = (int)r.below(4); // 0 mixed, 1 small intervals/large jumps (catch-up), 2 equal deadlines, 3 callback-heavy
        std::vector<Op> ops;
        ops.reserve(200);
        World *w = new World(NT);
        w->hist = &ops;
        if (vf::verbose())
            printf("  random history: timers=%d mode=%d\n", NT, mode);
        try
        {
            w->check();
            for (int s = 0; s < 200; s++)
            {
                Op o;
                int k = (int)r.below(10);
                o.tim = (int)r.below(NT);
                o.b = 0;
                if (k < 4)
                {
                    o.kind = K_PLAN;
                    o.a = mode == 1 ? r.range(1, 3) : mode == 2 ? (r.chance(1, 2) ? 4 : 2) : (int)r.pick(IVS) + (r.chance(1, 4) ? r.range(0, 30) : 0);
                    o.b = mode == 2 ? (r.chance(1, 2) ? 0 : -2) : r.chance(1, 2) ? 0 : r.range(-12, 6);
                }
                else if (k < 6)
                {
                    o.kind = K_SETACT;
                    o.a = mode == 3 ? r.range(1, A_COUNT - 1) : (int)r.below(A_COUNT);
                }
                else if (k < 7)
                {
                    o.kind = K_UNPLAN;
                    o.a = 0;
                }
                else
                {
                    o.kind = K_EXEC;
                    o.tim = 0;
                    o.a = mode == 1 ? (r.chance(1, 3) ? r.range(20, 120) : r.range(0, 3)) : r.chance(1, 8) ? r.range(10, 60) : r.range(0, 4);
                }
                ops.push_back(o);
                if (vf::verbose())
                    printf("  op %d: %s\n", s, describe(o).c_str());
                w->upto = ops.size();
                w->apply(o, r.next());
                w->settle();
                w->check();
            }
            uint64_t hh = 0xEE;
            for (auto &o : ops)
                hh = vf::mix(hh, ((uint64_t)o.kind << 48) ^ ((uint64_t)o.tim << 40) ^ ((uint64_t)(o.a & 0xffff) << 16) ^ (uint64_t)(o.b & 0xffff));
            vf::count_case(vf::mix(hh, NT), nontrivial(ops));
            if (vf::want_sample())
            {
                std::string s;
                for (size_t i = 0; i < 6 && i < ops.size(); i++)
                    s += describe(ops[i]) + "; ";
                vf::sample("random history, %d timers, mode %d, 200 ops: %s...", NT, mode, s.c_str());
            }
            w->teardown(r.next());
            delete w;
        }
        catch (vf::CaseFailed &)
        {
            cur = nullptr;
        }
    }
    VF_SUITE(timers_rnd, rnd_count, rnd_run)

    // ------------------------------------------------------------------ stimer
    // reference: check <=> planned && now - start >= interval; PERIODIC advances start by exactly one interval
    struct SRef
    {
        bool planned = false;
        long start = 0, interval = 1;
    };
    void stimer_fail(const char *key, const std::string &hist, const char *fmt, ...) __attribute__((format(printf, 3, 4)));
    void stimer_fail(const char *key, const std::string &hist, const char *fmt, ...)
    {
        char msg[300];
        va_list ap;
        va_start(ap, fmt);
        vsnprintf(msg, sizeof msg, fmt, ap);
        va_end(ap);
        std::string h = hist.size() > 1200 ? "... " + hist.substr(hist.size() - 1200) : hist;
        vf::fail(key, "%s | history: %s", msg, h.c_str());
    }
    void stimer_history(vf::Rng &r, int steps, bool small)
    {
        stimer_head *t = (stimer_head *)malloc(sizeof(stimer_head));
        memset(t, 0xA5, sizeof *t);
        SRef m;
        long now = 500;
        std::string hist;
        bool inited = false;
        uint64_t hh = 0x57;
        vf::cls("stimer");
        for (int s = 0; s < steps; s++)
        {
            int k = inited ? (int)r.below(7) : (int)r.below(2);
            long st = now + (small ? r.range(-2, 2) : r.range(-40, 10)), iv = small ? r.range(1, 3) : r.range(1, 25);
            char b[80];
            hh = vf::mix(hh, (uint64_t)k * 1000003 + (uint64_t)(st - now + 100) * 131 + (uint64_t)iv);
            switch (k)
            {
            case 0:
                snprintf(b, sizeof b, "stimer_plan(start=now%+ld, interval=%ld); ", st - now, iv);
                hist += b;
                stimer_plan(t, st, iv);
                m = SRef{true, st, iv};
                inited = true;
                break;
            case 1:
                snprintf(b, sizeof b, "stimer_init(start=now%+ld, interval=%ld); ", st - now, iv);
                hist += b;
                stimer_init(t, st, iv);
                m = SRef{false, st, iv};
                inited = true;
                break;
            case 2:
                snprintf(b, sizeof b, "stimer_start(now%+ld); ", st - now);
                hist += b;
                stimer_start(t, st);
                m.planned = true;
                m.start = st;
                break;
            case 3:
                hist += "stimer_swift; ";
                stimer_swift(t);
                m.start += m.interval;
                break;
            case 4:
            case 5:
            {
                long dt = small ? r.range(0, 3) : (r.chance(1, 4) ? r.range(10, 100) : r.range(0, 5));
                now += dt;
                snprintf(b, sizeof b, "now+=%ld, STIMER_PERIODIC; ", dt);
                hist += b;
                bool due = m.planned && now - m.start >= m.interval;
                int ran = 0;
                STIMER_PERIODIC(t, now) { ran++; }
                if ((ran != 0) != due)
                    stimer_fail("stimer:periodic-ran!=due", hist, "STIMER_PERIODIC body ran %d time(s), reference due=%d", ran, (int)due);
                if (due)
                {
                    m.start += m.interval;
                    VF_OK("stimer: STIMER_PERIODIC runs its body iff due and advances by exactly one interval");
                }
                break;
            }
            default:
            {
                long dt = small ? r.range(0, 2) : r.range(0, 30);
                now += dt;
                snprintf(b, sizeof b, "now+=%ld; ", dt);
                hist += b;
            }
            }
            if (vf::verbose())
                printf("  stimer %s\n", hist.c_str() + (hist.size() > 60 ? hist.size() - 60 : 0));
            bool due = m.planned && now - m.start >= m.interval;
            int got = stimer_check(t, now);
            if ((got != 0) != due)
                stimer_fail("stimer:check!=reference", hist, "stimer_check(now)=%d, reference planned=%d now-start=%ld interval=%ld", got, (int)m.planned,
                            now - m.start, m.interval);
            // exactly at, one before, one after the deadline
            long d = m.start + m.interval;
            if (!!stimer_check(t, d) != m.planned || stimer_check(t, d - 1) || !!stimer_check(t, d + 1) != m.planned)
                stimer_fail("stimer:check-at-deadline", hist, "stimer_check at deadline-1/deadline/deadline+1 = %d/%d/%d, reference 0/%d/%d", stimer_check(t, d - 1),
                            stimer_check(t, d), stimer_check(t, d + 1), (int)m.planned, (int)m.planned);
            if ((long)stimer_finish(t) != d || t->start != m.start || t->interval != m.interval)
                stimer_fail("stimer:deadline!=reference", hist, "finish=%ld start=%ld interval=%ld, reference %ld/%ld/%ld", (long)stimer_finish(t), t->start,
                            t->interval, d, m.start, m.interval);
            VF_OK("stimer: stimer_check <=> planned && now-start >= interval (also probed at deadline-1, deadline, deadline+1)");
            VF_OK("stimer: start/interval/finish == reference");
        }
        vf::count_case(hh, steps >= 3);
        free(t);
    }
    uint64_t stimer_count() { return limited("stimer", vf::thorough() ? 200000 : 4000); }
    void stimer_run(uint64_t idx)
    {
        vf::Rng r(vf::seed(), 0x57173, idx);
        stimer_history(r, idx % 2 ? 60 : 12, idx % 4 < 2);
    }
    VF_SUITE(stimer, stimer_count, stimer_run)
} // namespace

extern "C" void vf_setup()
{
    for (const char *c : {"an unplanned timer never fires (every firing timer is pending in the reference)", "never fires before start+interval",
                          "each fired timer has the minimum deadline of the pending set at that moment", "at the return of exec(now) no pending timer is due",
                          "exec() that fired at least one callback", "exec() that fired several callbacks (ordering observable)",
                          "pending set (is_planned of every timer) == reference",
                          "deadline (finish) of every pending timer == reference: re-armed at exactly previous deadline + interval", "empty() == reference",
                          "minimal_interval(now) == time to the earliest reference deadline", "destroying the manager unlinks every pending timer",
                          "destroying a pending timer removes it from the manager",
                          "stimer: STIMER_PERIODIC runs its body iff due and advances by exactly one interval",
                          "stimer: stimer_check <=> planned && now-start >= interval (also probed at deadline-1, deadline, deadline+1)",
                          "stimer: start/interval/finish == reference"})
        vf::require(c);
    for (int a = 0; a < A_COUNT; a++)
        vf::require((std::string("callback action ") + act_name(a)).c_str());
}
