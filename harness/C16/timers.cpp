// C16 — timer_manager / stimer under enumerated and random plan/unplan/exec histories in virtual time.
// Every callback invocation is checked online against a reference scheduler written from the statement
// (set of pending timers with start/interval; ties in any order), callbacks run scripted actions
// (nothing, unplan self, unplan other, re-plan self, plan other); after every step is_planned / finish /
// empty / minimal_interval are compared with the reference. Timers and the manager are individual heap
// objects (ASan), the callbacks go through all delegate flavours of igris/event/delegate.h.
#define VF_MAIN
#include <cassert> // before vf.h: its __assert_fail definition must follow the libc declaration
#include "vf.h"
#include <igris/datastruct/stimer.h>
#include <igris/sync/syslock.h>
#include <igris/time/timer_manager.h>
#include <string>
#include <vector>

namespace
{
    enum
    {
        TMAX = 8
    };
    enum Act
    {
        A_NOTHING,
        A_UNPLAN_SELF,
        A_UNPLAN_OTHER,
        A_REPLAN_SELF,
        A_PLAN_OTHER,
        A_COUNT
    };
    const char *act_name(int a)
    {
        static const char *n[] = {"nothing", "unplan-self", "unplan-other", "replan-self", "plan-other"};
        return n[a];
    }
    enum Kind
    {
        K_PLAN,
        K_SETACT,
        K_UNPLAN,
        K_EXEC,
        // the rest of the public API that changes a timer's timing or membership
        K_SET_START,    // set_start on an unplanned timer (planned later through plan(tim))
        K_SET_INTERVAL, // set_interval on an unplanned timer
        K_SHIFT,        // shift() on an unplanned timer
        K_PLAN0,        // plan(tim): plan with the fields the object holds
        K_RESTART,      // set_start(now+off); plan(tim)   - also on a planned timer
        K_REINTERVAL,   // set_interval(iv); plan(tim)     - also on a planned timer
        K_SHIFTPLAN,    // shift(); plan(tim)              - also on a planned timer
        K_RECREATE,     // destroy the timer object (planned or not) and construct a new one
        K_COUNT
    };
    const char *kind_name(int k)
    {
        static const char *n[] = {"plan(tim,start,interval)", "set-callback", "unplan", "exec", "set_start (unplanned)", "set_interval (unplanned)", "shift (unplanned)",
                                  "plan(tim)", "set_start+plan(tim)", "set_interval+plan(tim)", "shift+plan(tim)", "destroy+construct"};
        return n[k];
    }
    struct Op
    {
        int kind, tim;
        int64_t a, b; // PLAN: a=interval b=start offset; SETACT: a=action; EXEC: a=dt
    };
    std::string describe(const Op &o)
    {
        char b[128];
        switch (o.kind)
        {
        case K_PLAN:
            snprintf(b, sizeof b, "plan(t%d, start=now%+lld, interval=%lld)", o.tim, (long long)o.b, (long long)o.a);
            break;
        case K_SETACT:
            snprintf(b, sizeof b, "callback(t%d):=%s", o.tim, act_name(o.a));
            break;
        case K_UNPLAN:
            snprintf(b, sizeof b, "unplan(t%d)", o.tim);
            break;
        case K_SET_START:
            snprintf(b, sizeof b, "t%d.set_start(now%+lld)", o.tim, (long long)o.b);
            break;
        case K_SET_INTERVAL:
            snprintf(b, sizeof b, "t%d.set_interval(%lld)", o.tim, (long long)o.a);
            break;
        case K_SHIFT:
            snprintf(b, sizeof b, "t%d.shift()", o.tim);
            break;
        case K_PLAN0:
            snprintf(b, sizeof b, "plan(t%d)", o.tim);
            break;
        case K_RESTART:
            snprintf(b, sizeof b, "t%d.set_start(now%+lld)+plan(t%d)", o.tim, (long long)o.b, o.tim);
            break;
        case K_REINTERVAL:
            snprintf(b, sizeof b, "t%d.set_interval(%lld)+plan(t%d)", o.tim, (long long)o.a, o.tim);
            break;
        case K_SHIFTPLAN:
            snprintf(b, sizeof b, "t%d.shift()+plan(t%d)", o.tim, o.tim);
            break;
        case K_RECREATE:
            snprintf(b, sizeof b, "delete t%d; new t%d", o.tim, o.tim);
            break;
        default:
            snprintf(b, sizeof b, "exec(now+=%lld)", (long long)o.a);
        }
        return b;
    }

    // Magnitude class of a history: where the clock starts, the size of the intervals / steps, and the last
    // time value the workload may reach. Everything igris computes (start+interval, now-start, start+=interval)
    // stays representable in int64: the statement does not fix behaviour at wrap-around, so it is not driven.
    const int64_t P31 = 1LL << 31, P32 = 1LL << 32, P40 = 1LL << 40, P60 = 1LL << 60, P62 = 1LL << 62;
    struct Mag
    {
        const char *name;
        int64_t base;    // initial now
        int64_t S;       // 0: small intervals/steps (1..~100); else intervals lie in [S/4, S+1]
        int64_t horizon; // now never exceeds this
    };
    const Mag MAGS[] = {
        {"small", 1000, 0, 1000 + P40},
        {"clock crossing 2^31", P31 - 40, 0, P31 + P40},
        {"clock crossing 2^32", P32 - 40, 0, P32 + P40},
        {"clock crossing 0 from below", -60, 0, P40},
        {"clock at 2^62", P62, 0, P62 + P40},
        {"clock near INT64_MAX", INT64_MAX - P40, 0, INT64_MAX - P32},
        {"clock near INT64_MIN", INT64_MIN + P40, 0, INT64_MIN + 2 * P40},
        {"intervals ~2^31", 0, P31, P40},
        {"intervals ~2^31, clock from -2^33", -8 * P32 / 4, P31, P40},
        {"intervals ~2^32", 12345, P32, P40 + P40},
        {"intervals ~2^33 at 2^62", P62, 2 * P32, P62 + P40 + P40},
        {"intervals ~2^60", -P60, P60, P62 - 4 * P60 + 3 * P60}, // horizon 2^62 - 2^60: + 3 S < 2^63
        {"intervals ~2^62 from INT64_MIN", INT64_MIN + P40, P62 - 16, INT64_MIN + P40 + P62 + P60}, // 2*interval+2 < 2^63
    };
    const int NMAGS = sizeof MAGS / sizeof MAGS[0];
    inline bool fits64(__int128 v) { return v >= (__int128)INT64_MIN && v <= (__int128)INT64_MAX; }

    struct World;
    World *cur = nullptr;
    void fired(int id);

    // the four ways a callback can be attached
    void cb_plain(int id) { fired(id); }
    void cb_ext(void *ctx, int id)
    {
        if (ctx != (void *)&cur)
            vf::fail_nothrow("delegate:wrong-context", "external-function delegate passed a different context pointer");
        fired(id);
    }
    struct Host
    {
        int salt = 0x5A17;
        void cb(int id)
        {
            if (salt != 0x5A17)
                vf::fail_nothrow("delegate:wrong-object", "method delegate called on a different object");
            fired(id);
        }
    };
    struct OwnTimer : igris::timer_head
    {
        int id;
        explicit OwnTimer(int i) : id(i) {}
        void execute() override { fired(id); }
    };

    struct World
    {
        int NT;
        int64_t base, now, horizon = INT64_MAX / 2;
        igris::timer_manager *mgr;
        igris::timer_head *tim[TMAX];
        Host *host;
        // reference scheduler
        bool planned[TMAX];
        int64_t start[TMAX], interval[TMAX];
        int action[TMAX];
        // per exec
        bool in_exec = false, failed = false, runaway = false;
        long fired_in_exec = 0, plans_in_exec = 0;
        const std::vector<Op> *hist = nullptr;
        size_t upto = 0;
        uint64_t variant = 0;
        std::string optag = "setup";

        // unit: interval a timer has before it was ever planned (used by the plan-other callback action)
        explicit World(int nt, int64_t base_ = 1000, int64_t unit = 1) : NT(nt), base(base_), now(base_)
        {
            syslock_reset();
            mgr = new igris::timer_manager;
            host = new Host;
            unit_ = unit;
            for (int i = 0; i < NT; i++)
            {
                construct(i);
                action[i] = A_NOTHING;
            }
            cur = this;
        }
        int64_t unit_ = 1;
        // a new timer object: unplanned, start = 0, interval = 0 (the reference mirrors the object's fields also while unplanned)
        void construct(int i)
        {
            switch (i % 4)
            {
            case 0:
                tim[i] = new igris::timer<int>(igris::make_delegate(cb_plain), (int)i);
                break;
            case 1:
                tim[i] = new igris::timer<int>(igris::make_delegate(cb_ext, (void *)&cur), (int)i);
                break;
            case 2:
                tim[i] = new igris::timer<int>(igris::make_delegate(&Host::cb, host), (int)i);
                break;
            default:
                tim[i] = new OwnTimer(i);
            }
            planned[i] = false;
            start[i] = 0;
            interval[i] = 0;
        }
        // catch-up is one callback per elapsed period: keep the number of periods a (start, interval) lies behind `now` bounded
        bool bounded_catchup(__int128 st, int64_t iv) const { return iv > 0 && ((__int128)now - st) / iv <= 2000; }
        // is the operation inside the contract / the representable domain in the current state?
        bool legal(const Op &o) const
        {
            int i = o.tim;
            switch (o.kind)
            {
            case K_PLAN:
                return ok_plan((__int128)now + o.b, o.a) && bounded_catchup((__int128)now + o.b, o.a);
            case K_SET_START: // setters without a following plan() only while unplanned: the list is sorted at plan() time
                return !planned[i] && fits64((__int128)now + o.b) && (interval[i] == 0 || ok_plan((__int128)now + o.b, interval[i]));
            case K_SET_INTERVAL:
                return !planned[i] && o.a > 0 && ok_plan(start[i], o.a);
            case K_SHIFT:
                return !planned[i] && interval[i] > 0 && ok_plan((__int128)start[i] + interval[i], interval[i]);
            case K_PLAN0:
                return interval[i] > 0 && ok_plan(start[i], interval[i]) && bounded_catchup(start[i], interval[i]);
            case K_RESTART:
                return interval[i] > 0 && ok_plan((__int128)now + o.b, interval[i]) && bounded_catchup((__int128)now + o.b, interval[i]);
            case K_REINTERVAL:
                return o.a > 0 && ok_plan(start[i], o.a) && bounded_catchup(start[i], o.a);
            case K_SHIFTPLAN:
                return interval[i] > 0 && ok_plan((__int128)start[i] + interval[i], interval[i]) && bounded_catchup((__int128)start[i] + interval[i], interval[i]);
            default:
                return true;
            }
        }
        int64_t deadline(int i) const { return start[i] + interval[i]; }
        // for messages only: x relative to the initial now, saturating
        long long rel(int64_t x) const
        {
            __int128 d = (__int128)x - base;
            return d > INT64_MAX ? INT64_MAX : d < INT64_MIN ? INT64_MIN : (long long)d;
        }
        // may (start, interval) be planned without any quantity igris computes up to `horizon` leaving int64?
        // deadline and the re-armed deadline (also after a re-plan from the callback: now+1+2*interval), now-start
        bool ok_plan(__int128 st, int64_t iv) const
        {
            __int128 top = st > horizon ? st : (__int128)horizon;
            return iv > 0 && fits64(st) && fits64((__int128)horizon - st) && fits64((__int128)now - st) && fits64((__int128)st - 2) && fits64(top + 2 * (__int128)iv + 2) &&
                   fits64(2 * (__int128)iv + 2) && fits64((__int128)st + iv - now);
        }
        std::string history_text() const
        {
            std::string s;
            if (!hist)
                return s;
            for (size_t i = 0; i < upto && i < hist->size(); i++)
            {
                if (i)
                    s += "; ";
                s += describe((*hist)[i]);
            }
            if (s.size() > 1100)
                s = "... " + s.substr(s.size() - 1100);
            return s;
        }
        std::string pending_text() const
        {
            std::string s = "reference pending {";
            for (int i = 0; i < NT; i++)
                if (planned[i])
                    s += " t" + std::to_string(i) + "@" + std::to_string(rel(deadline(i))) + "/" + std::to_string(interval[i]);
            return s + " } now=" + std::to_string(rel(now));
        }
        void violation(const char *clause, const char *fmt, ...) __attribute__((format(printf, 3, 4)))
        {
            char msg[400];
            va_list ap;
            va_start(ap, fmt);
            vsnprintf(msg, sizeof msg, fmt, ap);
            va_end(ap);
            char key[180];
            snprintf(key, sizeof key, "%s:%s", clause, optag.c_str());
            failed = true;
            vf::fail_nothrow(key, "%s | %s | timers=%d (times relative to the initial now=%lld) history(%zu ops): %s", msg, pending_text().c_str(), NT,
                             (long long)base, upto, history_text().c_str());
        }
        void settle()
        {
            if (failed)
                throw vf::CaseFailed();
        }
        // ---- operations on igris + reference
        // every way the public API offers to give a timer (start, interval) and put it into the manager
        void plan_both(int i, int64_t st, int64_t iv, uint64_t form)
        {
            // harness self-check: the workload must stay where everything igris computes is representable
            if (!ok_plan(st, iv))
            {
                violation("harness:domain", "plan(start=%lld, interval=%lld) at now=%lld leaves the int64 domain", (long long)st, (long long)iv, (long long)now);
                return;
            }
            int f = (int)(form % 5);
            if (f == 3 && iv != interval[i])
                f = (int)((form >> 3) % 3);
            if (f == 4 && st != start[i])
                f = (int)((form >> 3) % 3);
            static int form_ids[5];
            static bool have;
            if (!have)
            {
                const char *n[5] = {"plan form: plan(tim,start,interval)", "plan form: set_start,set_interval,plan(tim)", "plan form: set_interval,set_start,plan(tim)",
                                    "plan form: set_start,plan(tim) (interval kept)", "plan form: set_interval,plan(tim) (start kept)"};
                for (int k = 0; k < 5; k++)
                    form_ids[k] = vf::clause_id(n[k]);
                have = true;
            }
            vf::clause_hit(form_ids[f]);
            switch (f)
            {
            case 0:
                mgr->plan(*tim[i], st, iv);
                break;
            case 1:
                tim[i]->set_start(st);
                tim[i]->set_interval(iv);
                mgr->plan(*tim[i]);
                break;
            case 2:
                tim[i]->set_interval(iv);
                tim[i]->set_start(st);
                mgr->plan(*tim[i]);
                break;
            case 3:
                tim[i]->set_start(st);
                mgr->plan(*tim[i]);
                break;
            default:
                tim[i]->set_interval(iv);
                mgr->plan(*tim[i]);
            }
            planned[i] = true;
            start[i] = st;
            interval[i] = iv;
        }
        void unplan_both(int i)
        {
            tim[i]->unplan();
            planned[i] = false;
        }
        void on_fired(int id)
        {
            fired_in_exec++;
            if (!in_exec)
                violation("fired-outside-exec", "t%d fired outside exec()", id);
            if (fired_in_exec > 20000 && !runaway)
            {
                runaway = true;
                violation("exec-runaway", "more than 20000 callbacks in one exec()");
            }
            if (runaway)
            {
                // drain: take everything out so that exec() can return and the case can be reported
                for (int i = 0; i < NT; i++)
                    tim[i]->unplan();
                return;
            }
            if (!planned[id])
            {
                violation("fired-while-unplanned", "t%d fired but is not planned in the reference", id);
                return;
            }
            VF_OK("an unplanned timer never fires (every firing timer is pending in the reference)");
            if (deadline(id) > now)
                violation("fired-early", "t%d fired at now=%lld, %lld before its deadline", id, rel(now), (long long)(deadline(id) - now));
            VF_OK("never fires before start+interval");
            for (int j = 0; j < NT; j++)
                if (planned[j] && deadline(j) < deadline(id))
                    violation("fired-out-of-order", "t%d (deadline %lld) fired while t%d (deadline %lld) is pending", id, rel(deadline(id)), j,
                              rel(deadline(j)));
            VF_OK("each fired timer has the minimum deadline of the pending set at that moment");
            static int act_ids[A_COUNT];
            static bool have;
            if (!have)
            {
                for (int a = 0; a < A_COUNT; a++)
                    act_ids[a] = vf::clause_id((std::string("callback action ") + act_name(a)).c_str());
                have = true;
            }
            int a = action[id], other = (id + 1) % NT;
            if ((a == A_REPLAN_SELF || a == A_PLAN_OTHER) && plans_in_exec >= 4)
                a = A_NOTHING; // bounded so that two timers cannot keep each other due forever
            vf::clause_hit(act_ids[a]);
            switch (a)
            {
            case A_UNPLAN_SELF:
                unplan_both(id);
                break;
            case A_UNPLAN_OTHER:
                unplan_both(other);
                break;
            case A_REPLAN_SELF:
                plans_in_exec++;
                plan_both(id, now + (fired_in_exec & 1), interval[id], variant + (uint64_t)fired_in_exec * 7);
                break;
            case A_PLAN_OTHER:
                plans_in_exec++;
                plan_both(other, now - 1, interval[other] > 0 ? interval[other] : unit_, variant + (uint64_t)fired_in_exec * 7);
                break;
            }
            // reference: a timer still planned when its callback returns is re-armed at its deadline + interval
            if (planned[id])
                start[id] += interval[id];
        }
        void apply(const Op &o, uint64_t v)
        {
            variant = v;
            {
                static int kids[K_COUNT];
                static bool have;
                if (!have)
                {
                    for (int k = 0; k < K_COUNT; k++)
                        kids[k] = vf::clause_id((std::string("op ") + kind_name(k)).c_str());
                    have = true;
                }
                vf::clause_hit(kids[o.kind]);
            }
            switch (o.kind)
            {
            case K_PLAN:
                optag = planned[o.tim] ? "plan@already-planned" : "plan";
                plan_both(o.tim, now + o.b, o.a, v);
                break;
            case K_SET_START:
                optag = "set_start";
                tim[o.tim]->set_start(now + o.b);
                start[o.tim] = now + o.b;
                break;
            case K_SET_INTERVAL:
                optag = "set_interval";
                tim[o.tim]->set_interval(o.a);
                interval[o.tim] = o.a;
                break;
            case K_SHIFT:
                optag = "shift";
                tim[o.tim]->shift();
                start[o.tim] += interval[o.tim];
                break;
            case K_PLAN0:
                optag = planned[o.tim] ? "plan(tim)@already-planned" : "plan(tim)";
                mgr->plan(*tim[o.tim]);
                planned[o.tim] = true;
                break;
            case K_RESTART:
                optag = planned[o.tim] ? "set_start+plan(tim)@already-planned" : "set_start+plan(tim)";
                tim[o.tim]->set_start(now + o.b);
                mgr->plan(*tim[o.tim]);
                start[o.tim] = now + o.b;
                planned[o.tim] = true;
                break;
            case K_REINTERVAL:
                optag = planned[o.tim] ? "set_interval+plan(tim)@already-planned" : "set_interval+plan(tim)";
                tim[o.tim]->set_interval(o.a);
                mgr->plan(*tim[o.tim]);
                interval[o.tim] = o.a;
                planned[o.tim] = true;
                break;
            case K_SHIFTPLAN:
                optag = planned[o.tim] ? "shift+plan(tim)@already-planned" : "shift+plan(tim)";
                tim[o.tim]->shift();
                mgr->plan(*tim[o.tim]);
                start[o.tim] += interval[o.tim];
                planned[o.tim] = true;
                break;
            case K_RECREATE:
                optag = planned[o.tim] ? "delete-timer@planned" : "delete-timer";
                delete tim[o.tim];
                construct(o.tim);
                break;
            case K_SETACT:
                optag = "set-callback";
                action[o.tim] = o.a;
                break;
            case K_UNPLAN:
                optag = planned[o.tim] ? "unplan" : "unplan@not-planned";
                unplan_both(o.tim);
                break;
            case K_EXEC:
            {
                now += o.a;
                bool any_act = false;
                for (int i = 0; i < NT; i++)
                    if (planned[i] && action[i] != A_NOTHING)
                        any_act = true;
                optag = any_act ? "exec@scripted-callbacks" : "exec";
                vf::cls(("timer_manager:" + optag).c_str());
                in_exec = true;
                fired_in_exec = plans_in_exec = 0;
                mgr->exec(now);
                in_exec = false;
                for (int j = 0; j < NT; j++)
                    if (planned[j] && deadline(j) <= now)
                    {
                        violation("due-timer-not-fired", "exec(%lld) returned while t%d is due since %lld", rel(now), j,
                                  rel(deadline(j)));
                        break;
                    }
                VF_OK("at the return of exec(now) no pending timer is due");
                if (fired_in_exec)
                    VF_OK("exec() that fired at least one callback");
                if (fired_in_exec >= 2)
                    VF_OK("exec() that fired several callbacks (ordering observable)");
                VF_MAX("most callbacks in one exec()", fired_in_exec);
                break;
            }
            }
            vf::cls(("timer_manager:" + optag).c_str());
        }
        void check()
        {
            bool any = false;
            int64_t mind = 0;
            uint64_t sh = 0xC16;
            int coarse[4 + A_COUNT] = {0};
            for (int i = 0; i < NT; i++)
            {
                bool p = tim[i]->is_planned();
                if (p != planned[i])
                    violation("is_planned!=reference", "t%d: is_planned()=%d, reference %d", i, (int)p, (int)planned[i]);
                else if (p && tim[i]->finish() != deadline(i))
                    violation("deadline!=reference", "t%d: finish()=%lld, reference deadline %lld", i, rel(tim[i]->finish()),
                              rel(deadline(i)));
                if (planned[i] && (!any || deadline(i) < mind))
                    mind = deadline(i);
                any |= planned[i];
                // scheduler state: per timer {unplanned | rank of its deadline among the pending ones (ties share a rank)},
                // whether it lies in the past, and its scripted action
                int rank = 0;
                for (int j = 0; j < NT; j++)
                    if (planned[i] && planned[j] && deadline(j) < deadline(i))
                        rank++;
                if (NT <= 3)
                {
                    sh = vf::mix(sh, planned[i] ? (uint64_t)(rank * 4 + (deadline(i) - now <= interval[i] ? 1 : 0) + (deadline(i) - now <= 1 ? 2 : 0)) : 0x77);
                    sh = vf::mix(sh, (uint64_t)action[i]);
                }
                else if (planned[i])
                    coarse[rank < 3 ? rank : 3]++, coarse[4 + action[i]]++; // larger worlds: histogram of ranks and of pending actions
            }
            VF_OK("pending set (is_planned of every timer) == reference");
            VF_OK("deadline (finish) of every pending timer == reference: re-armed at exactly previous deadline + interval");
            settle();
            if (mgr->empty() == any)
                violation("empty!=reference", "empty()=%d, reference has %s pending timers", (int)mgr->empty(), any ? "some" : "no");
            VF_OK("empty() == reference");
            if (any)
            {
                int64_t mi = mgr->minimal_interval(now);
                if (mi != mind - now)
                    violation("minimal_interval!=reference", "minimal_interval(now)=%lld, reference %lld", (long long)mi, (long long)(mind - now));
                VF_OK("minimal_interval(now) == time to the earliest reference deadline");
            }
            settle();
            if (NT > 3)
                for (int c : coarse)
                    sh = vf::mix(sh, (uint64_t)c);
            vf::state(vf::mix(sh, (uint64_t)NT));
        }
        void teardown(uint64_t v)
        {
            // timers and manager die in either order while timers are still planned
            optag = "teardown";
            vf::cls("timer_manager:teardown");
            if (v & 1)
            {
                delete mgr;
                mgr = nullptr;
                for (int i = 0; i < NT; i++)
                    if (tim[i]->is_planned())
                        violation("planned-after-manager-destroyed", "t%d still linked after the manager was destroyed", i);
                VF_OK("destroying the manager unlinks every pending timer");
            }
            for (int i = 0; i < NT; i++)
            {
                int k = (v & 2) ? NT - 1 - i : i;
                delete tim[k];
                planned[k] = false;
                if (mgr)
                {
                    bool any = false;
                    for (int j = 0; j < NT; j++)
                        any |= planned[j];
                    if (mgr->empty() == any)
                        violation("empty!=reference", "after deleting t%d: empty()=%d, reference has %s pending timers", k, (int)mgr->empty(), any ? "some" : "no");
                }
            }
            if (mgr)
                VF_OK("destroying a pending timer removes it from the manager");
            delete mgr;
            delete host;
            cur = nullptr;
            settle();
        }
    };
    void fired(int id)
    {
        if (cur)
            cur->on_fired(id);
    }

    // ------------------------------------------------------------------ exhaustive histories
    const int IVS[3] = {1, 2, 5}, OFFS[2] = {0, -3}, DTS[4] = {0, 1, 3, 20};
    enum
    {
        DN = 3
    };
    // alphabet: PLAN 3*3*2, SETACT 3*5, UNPLAN 3, EXEC 4
    const int A_PLAN = DN * 3 * 2, A_SET = (int)DN * (int)A_COUNT, A_UNP = DN, A_EXE = 4, ALPHA = A_PLAN + A_SET + A_UNP + A_EXE;
    // exhaustive histories are also run with every time quantity multiplied by K (K = 1: the plain small-value run)
    struct Scale
    {
        const char *name;
        int64_t base, K;
    };
    const Scale SCALES[] = {{"x1", 1000, 1}, {"x2^31", 0, P31}, {"x2^32 clock from 2^32-7", P32 - 7, P32}, {"x(2^31+1) clock from -2^40", -P40, P31 + 1}, {"x2^56 clock from -2^62", -P62, 1LL << 56}};
    const int NSCALES = sizeof SCALES / sizeof SCALES[0];
    // generic alphabet over dn timers; ext adds the rest of the public API (setters, shift, plan(tim), restart pairs, destroy)
    int alpha_n(int dn, bool ext) { return dn * 6 + dn * A_COUNT + dn + 4 + (ext ? dn * (2 + 3 + 1 + 1 + 2 + 3 + 1 + 1) : 0); }
    Op decode_n(int c, int64_t K, int dn, bool ext)
    {
        (void)ext;
        if (c < dn * 6)
            return Op{K_PLAN, c / 6, IVS[(c / 2) % 3] * K, OFFS[c % 2] * K};
        c -= dn * 6;
        if (c < dn * A_COUNT)
            return Op{K_SETACT, c / A_COUNT, c % A_COUNT, 0};
        c -= dn * A_COUNT;
        if (c < dn)
            return Op{K_UNPLAN, c, 0, 0};
        c -= dn;
        if (c < 4)
            return Op{K_EXEC, 0, DTS[c] * K, 0};
        c -= 4;
        if (c < dn * 2)
            return Op{K_SET_START, c / 2, 0, OFFS[c % 2] * K};
        c -= dn * 2;
        if (c < dn * 3)
            return Op{K_SET_INTERVAL, c / 3, IVS[c % 3] * K, 0};
        c -= dn * 3;
        if (c < dn)
            return Op{K_SHIFT, c, 0, 0};
        c -= dn;
        if (c < dn)
            return Op{K_PLAN0, c, 0, 0};
        c -= dn;
        if (c < dn * 2)
            return Op{K_RESTART, c / 2, 0, OFFS[c % 2] * K};
        c -= dn * 2;
        if (c < dn * 3)
            return Op{K_REINTERVAL, c / 3, IVS[c % 3] * K, 0};
        c -= dn * 3;
        if (c < dn)
            return Op{K_SHIFTPLAN, c, 0, 0};
        c -= dn;
        return Op{K_RECREATE, c, 0, 0};
    }
    Op decode(int c, int64_t K = 1) { return decode_n(c, K, DN, false); }
    uint64_t variant_of(const std::vector<int> &h, size_t i)
    {
        uint64_t x = vf::mix(vf::seed(), 0xC16);
        for (size_t k = 0; k <= i; k++)
            x = vf::mix(x, (uint64_t)h[k]);
        return x;
    }
    bool nontrivial(const std::vector<Op> &ops)
    {
        bool plan = false, exec_after = false;
        for (auto &o : ops)
        {
            if (o.kind == K_PLAN)
                plan = true;
            if (o.kind == K_EXEC && plan)
                exec_after = true;
        }
        return exec_after;
    }
    bool run_history(const std::vector<int> &h, int sc = 0, int dn = DN, bool ext = false)
    {
        std::vector<Op> ops;
        for (int c : h)
            ops.push_back(decode_n(c, SCALES[sc].K, dn, ext));
        World *w = new World(dn, SCALES[sc].base, SCALES[sc].K);
        w->horizon = SCALES[sc].base + 120 * SCALES[sc].K;
        w->hist = &ops;
        try
        {
            for (size_t i = 0; i < ops.size(); i++)
            {
                if (vf::verbose())
                    printf("  op %zu: %s\n", i, describe(ops[i]).c_str());
                if (!w->legal(ops[i]))
                {
                    // outside the contract in this state (only the last op can be: shorter histories passed before)
                    w->teardown(0);
                    delete w;
                    return false;
                }
                w->upto = i + 1;
                w->apply(ops[i], variant_of(h, i));
                w->settle();
                if (i + 1 == ops.size())
                    w->check(); // the prefix was checked when it was the end of a shorter history
            }
            vf::count_case(vf::mix(vf::hash_bytes(h.data(), h.size() * sizeof(int), 0xD0), (uint64_t)sc * 16 + (uint64_t)dn * 2 + ext), nontrivial(ops));
            if (sc && nontrivial(ops))
                VF_OK("exhaustive history with every time quantity scaled by >= 2^31");
            w->teardown(h.empty() ? 0 : variant_of(h, h.size() - 1) >> 7);
            delete w;
            return true;
        }
        catch (vf::CaseFailed &)
        {
            cur = nullptr;
            return false; // leak the world
        }
    }
    void dfs(std::vector<int> &h, int maxdepth, int sc = 0, int dn = DN, bool ext = false, int thorough_den = 4)
    {
        if (!run_history(h, sc, dn, ext))
            return;
        if ((int)h.size() >= maxdepth)
            return;
        // thorough: the deepest level is a seeded 1/4 sample
        int den = (vf::thorough() && (int)h.size() + 1 == maxdepth) ? thorough_den : 1;
        uint64_t hh = den > 1 ? vf::hash_bytes(h.data(), h.size() * sizeof(int), vf::seed()) : 0;
        for (int c = 0, A = alpha_n(dn, ext); c < A; c++)
        {
            if (den > 1 && vf::mix(hh, (uint64_t)c) % (uint64_t)den != 0)
                continue;
            h.push_back(c);
            dfs(h, maxdepth, sc, dn, ext, thorough_den);
            h.pop_back();
        }
    }
    int depth() { return vf::thorough() ? 5 : 4; }
    uint64_t limited(const char *suite, uint64_t n)
    {
        const char *only = getenv("C16_ONLY"), *mx = getenv("C16_MAXCASES");
        if (only && *only && !strstr(suite, only))
            return 0;
        if (mx && *mx && strtoull(mx, nullptr, 0) < n)
            return strtoull(mx, nullptr, 0);
        return n;
    }
    uint64_t dfs_count() { return limited("dfs", (uint64_t)ALPHA * ALPHA); }
    void dfs_run(uint64_t idx)
    {
        std::vector<int> h;
        if (idx == 0)
            run_history(h);
        int a1 = (int)(idx / ALPHA), a2 = (int)(idx % ALPHA);
        h.push_back(a1);
        if (a2 == 0 && !run_history(h))
            return;
        h.push_back(a2);
        dfs(h, depth());
    }
    VF_SUITE(timers_dfs, dfs_count, dfs_run)

    // the same enumeration one level shallower, with all time quantities multiplied by 2^31, 2^32, 2^31+1, 2^56
    int big_depth() { return vf::thorough() ? 4 : 3; }
    uint64_t dfs_big_count() { return limited("dfs_big", (uint64_t)(NSCALES - 1) * ALPHA * ALPHA); }
    void dfs_big_run(uint64_t idx)
    {
        int sc = 1 + (int)(idx / ((uint64_t)ALPHA * ALPHA));
        idx %= (uint64_t)ALPHA * ALPHA;
        std::vector<int> h;
        if (idx == 0)
            run_history(h, sc);
        int a1 = (int)(idx / ALPHA), a2 = (int)(idx % ALPHA);
        h.push_back(a1);
        if (a2 == 0 && !run_history(h, sc))
            return;
        h.push_back(a2);
        int md = big_depth();
        // at depth 3 the deepest level is complete; thorough depth 4 keeps the 1/4 leaf sample of dfs()
        if (vf::thorough())
            dfs(h, md, sc);
        else
        {
            if (!run_history(h, sc))
                return;
            for (int c = 0; c < ALPHA; c++)
            {
                h.push_back(c);
                run_history(h, sc);
                h.pop_back();
            }
        }
    }
    VF_SUITE(timers_dfs_big, dfs_big_count, dfs_big_run)

    // the whole public API that changes timing or membership (every plan overload, set_start, set_interval, shift alone on
    // unplanned timers and paired with plan(tim) on planned ones, unplan, destruction while planned) over 2 timers:
    // every history of length <= 4 (thorough 5, deepest level 1/16), and once more one level shallower scaled by 2^32
    enum
    {
        AN = 2
    };
    uint64_t dfs_api_count()
    {
        uint64_t A = alpha_n(AN, true);
        return limited("dfs_api", 2 * A * A);
    }
    void dfs_api_run(uint64_t idx)
    {
        uint64_t A = alpha_n(AN, true);
        int sc = idx >= A * A ? 2 : 0;
        idx %= A * A;
        std::vector<int> h;
        if (idx == 0)
            run_history(h, sc, AN, true);
        int a1 = (int)(idx / A), a2 = (int)(idx % A);
        h.push_back(a1);
        // the one-op history is evaluated (and counted once) before anything is built on it
        if (a2 == 0 ? !run_history(h, sc, AN, true) : false)
            return;
        h.push_back(a2);
        dfs(h, (vf::thorough() ? 5 : 4) - (sc ? 1 : 0), sc, AN, true, 16);
    }
    VF_SUITE(timers_dfs_api, dfs_api_count, dfs_api_run)

    // ------------------------------------------------------------------ random histories
    // value classes for one magnitude class: boundary values of S (2^31, 2^32, 2^60, 2^62 ...) and fractions of it
    int64_t big_interval(vf::Rng &r, int64_t S)
    {
        const int64_t c[] = {S, S - 1, S + 1, S / 2, S / 2 + 1, S / 4, S / 4 + 3, S / 2 - 1, S / 4 + (int64_t)r.below((uint64_t)(S / 2))};
        return r.pick(c);
    }
    int64_t big_offset(vf::Rng &r, int64_t S)
    {
        const int64_t c[] = {0, 0, -1, 1, -S / 4, S / 4, -S, S / 2, -(S / 4 + 1), -S - 1, -(int64_t)r.below((uint64_t)S)};
        return r.pick(c);
    }
    __int128 big_step(vf::Rng &r, int64_t S, bool far)
    {
        if (far) // many periods ahead
            return (__int128)r.range(5, 40) * (S / 4) + r.range(-2, 2);
        const __int128 c[] = {0, 1, 2, S / 4, S / 4 - 1, S / 4 + 1, S / 2, S, (__int128)S + 1, S - 1, 2 * (__int128)S + 5, (__int128)r.below((uint64_t)S)};
        return r.pick(c);
    }
    uint64_t rnd_count() { return limited("rnd", vf::thorough() ? 300000 : 4000); }
    void rnd_run(uint64_t idx)
    {
        vf::Rng r(vf::seed(), 0xC1600, idx);
        int NT = r.range(2, TMAX);
        int mode = (int)r.below(4); // 0 mixed, 1 small intervals/large jumps (catch-up), 2 equal deadlines, 3 callback-heavy
        // magnitude class: a third of the histories stay in the plain small class, the rest cycle through all others
        const Mag &mg = MAGS[idx % 3 == 0 ? 0 : 1 + (idx / 3) % (NMAGS - 1)];
        const int64_t S = mg.S;
        // a class whose whole travel is only a few periods gets shorter histories
        int steps = (S && (__int128)mg.horizon - mg.base < 200 * (__int128)(S / 4)) ? 40 : 200;
        std::vector<Op> ops;
        ops.reserve(steps);
        World *w = new World(NT, mg.base, S ? S / 4 : 1);
        w->horizon = mg.horizon;
        w->hist = &ops;
        if (vf::verbose())
            printf("  random history: timers=%d mode=%d magnitude class '%s' (now starts at %lld)\n", NT, mode, mg.name, (long long)mg.base);
        static int mag_ids[NMAGS];
        static bool have;
        if (!have)
        {
            for (int i = 0; i < NMAGS; i++)
                mag_ids[i] = vf::clause_id((std::string("random history in magnitude class: ") + MAGS[i].name).c_str());
            have = true;
        }
        try
        {
            w->check();
            bool big_exec = false;
            for (int s = 0; s < steps; s++)
            {
                Op o;
                bool found = false;
                for (int tries = 0; tries < 30 && !found; tries++)
                {
                int k = (int)r.below(14);
                o.tim = (int)r.below(NT);
                o.a = o.b = 0;
                if (k >= 10)
                {
                    // the rest of the API: setters / shift alone (unplanned timers), plan(tim), setter+plan(tim) pairs, destruction
                    static const int alone[3] = {K_SET_START, K_SET_INTERVAL, K_SHIFT}, paired[3] = {K_RESTART, K_REINTERVAL, K_SHIFTPLAN};
                    o.kind = k == 10 ? r.pick(alone) : k == 11 ? K_PLAN0 : k == 12 ? r.pick(paired) : (r.chance(1, 3) ? K_RECREATE : r.pick(paired));
                    if (o.kind == K_SET_INTERVAL || o.kind == K_REINTERVAL)
                        o.a = S ? (mode == 2 ? S / 2 : big_interval(r, S)) : (mode == 2 ? 2 : (int)r.pick(IVS) + (r.chance(1, 4) ? r.range(0, 30) : 0));
                    if (o.kind == K_SET_START || o.kind == K_RESTART)
                        o.b = S ? (mode == 2 ? 0 : big_offset(r, S)) : (r.chance(1, 2) ? 0 : r.range(-12, 6));
                }
                else if (k < 4)
                {
                    o.kind = K_PLAN;
                    if (S)
                    {
                        o.a = mode == 2 ? (r.chance(1, 2) ? S : S / 2) : big_interval(r, S);
                        o.b = mode == 2 ? (r.chance(1, 2) ? 0 : -S / 2) : big_offset(r, S);
                    }
                    else
                    {
                        o.a = mode == 1 ? r.range(1, 3) : mode == 2 ? (r.chance(1, 2) ? 4 : 2) : (int)r.pick(IVS) + (r.chance(1, 4) ? r.range(0, 30) : 0);
                        o.b = mode == 2 ? (r.chance(1, 2) ? 0 : -2) : r.chance(1, 2) ? 0 : r.range(-12, 6);
                    }
                    // stay inside the representable domain (never needed for the small classes)
                    if (!w->ok_plan((__int128)w->now + o.b, o.a))
                        o.b = 0;
                    if (!w->ok_plan((__int128)w->now + o.b, o.a))
                        o.a = S ? S / 4 : 1;
                    if (!w->ok_plan((__int128)w->now + o.b, o.a))
                    {
                        o.kind = K_UNPLAN; // the class has no room left for a new deadline
                        o.a = o.b = 0;
                    }
                }
                else if (k < 6)
                {
                    o.kind = K_SETACT;
                    o.a = mode == 3 ? r.range(1, A_COUNT - 1) : (int)r.below(A_COUNT);
                }
                else if (k < 7)
                {
                    o.kind = K_UNPLAN;
                    o.a = 0;
                }
                else
                {
                    o.kind = K_EXEC;
                    o.tim = 0;
                    __int128 want = 0;
                    o.a = 0;
                    if (S)
                        want = big_step(r, S, mode == 1 ? r.chance(1, 3) : r.chance(1, 10));
                    else
                        o.a = mode == 1 ? (r.chance(1, 3) ? r.range(20, 120) : r.range(0, 3)) : r.chance(1, 8) ? r.range(10, 60) : r.range(0, 4);
                    // a quarter of the steps aim at the earliest deadline: one before, exactly at, one after
                    if (r.chance(1, 4))
                    {
                        bool any = false;
                        int64_t mind = 0;
                        for (int i = 0; i < NT; i++)
                            if (w->planned[i] && (!any || w->deadline(i) < mind))
                                mind = w->deadline(i), any = true;
                        __int128 d = (__int128)mind - w->now + r.range(-1, 1);
                        if (any && d >= 0 && (S ? d <= 3 * (__int128)S : d <= 200))
                            want = d, o.a = 0;
                    }
                    want += o.a;
                    __int128 room = (__int128)mg.horizon - w->now;
                    o.a = (int64_t)(want <= room ? want : room / 2);
                }
                found = w->legal(o);
                }
                if (!found)
                    continue;
                if (o.kind == K_EXEC && o.a >= P31)
                    big_exec = true;
                ops.push_back(o);
                if (vf::verbose())
                    printf("  op %d: %s\n", s, describe(o).c_str());
                w->upto = ops.size();
                w->apply(o, r.next());
                w->settle();
                w->check();
            }
            uint64_t hh = 0xEE;
            for (auto &o : ops)
                hh = vf::mix(hh, vf::mix(((uint64_t)o.kind << 8) ^ (uint64_t)o.tim, vf::mix((uint64_t)o.a, (uint64_t)o.b)));
            vf::count_case(vf::mix(hh, (uint64_t)NT * 64 + (uint64_t)(&mg - MAGS)), nontrivial(ops));
            vf::clause_hit(mag_ids[&mg - MAGS]);
            if (big_exec && nontrivial(ops))
                VF_OK("random history with exec() steps of >= 2^31 ticks");
            if (vf::want_sample() && (idx % 3))
            {
                std::string s;
                for (size_t i = 0; i < 6 && i < ops.size(); i++)
                    s += describe(ops[i]) + "; ";
                vf::sample("random history, %d timers, mode %d, class '%s' (now0=%lld), %d ops: %s...", NT, mode, mg.name, (long long)mg.base, steps, s.c_str());
            }
            w->teardown(r.next());
            delete w;
        }
        catch (vf::CaseFailed &)
        {
            cur = nullptr;
        }
    }
    VF_SUITE(timers_rnd, rnd_count, rnd_run)

    // ------------------------------------------------------------------ stimer
    // reference: check <=> planned && now - start >= interval; PERIODIC advances start by exactly one interval
    struct SRef
    {
        bool planned = false;
        long start = 0, interval = 1;
    };
    void stimer_fail(const char *key, const std::string &hist, const char *fmt, ...) __attribute__((format(printf, 3, 4)));
    void stimer_fail(const char *key, const std::string &hist, const char *fmt, ...)
    {
        char msg[300];
        va_list ap;
        va_start(ap, fmt);
        vsnprintf(msg, sizeof msg, fmt, ap);
        va_end(ap);
        std::string h = hist.size() > 1200 ? "... " + hist.substr(hist.size() - 1200) : hist;
        vf::fail(key, "%s | history: %s", msg, h.c_str());
    }
    // magnitude classes for the flag timer: all fields are `long` (64 bit here); values stay below 2^62 in
    // absolute value so that neither igris (start+interval, curtime-start) nor the reference overflows
    struct SMag
    {
        const char *name;
        long base, S; // S == 0: small values; S == -1: small intervals, huge jumps / far-away starts
    };
    const SMag SMAGS[] = {{"small", 500, 0},
                          {"clock crossing 2^31", P31 - 30, 0},
                          {"clock crossing 2^32", P32 - 30, 0},
                          {"clock at 2^61", 1L << 61, 0},
                          {"clock at -2^61", -(1L << 61), 0},
                          {"short interval, jumps and starts ~2^31..2^33 away", 77, -1},
                          {"intervals ~2^31", 5, P31},
                          {"intervals ~2^32", -P32, P32},
                          {"intervals ~2^32 at 2^40", P40, P32},
                          {"intervals ~2^59", -(1L << 60), 1L << 59}};
    const int NSMAGS = sizeof SMAGS / sizeof SMAGS[0];
    inline bool in62(__int128 v) { return v > -(__int128)P62 && v < (__int128)P62; }
    void stimer_history(vf::Rng &r, int steps, bool small, const SMag &mg)
    {
        stimer_head *t = (stimer_head *)malloc(sizeof(stimer_head));
        memset(t, 0xA5, sizeof *t);
        SRef m;
        long now = mg.base;
        const long S = mg.S;
        std::string hist = std::string("[class '") + mg.name + "', now0=" + std::to_string(mg.base) + "] ";
        bool inited = false;
        uint64_t hh = 0x57;
        vf::cls("stimer");
        auto far = [&]() -> long { // distances around 2^31, 2^32, 2^33
            const long c[] = {P31 - 1, P31, P31 + 1, P32 - 1, P32, P32 + 5, 2 * P32 + 7, P31 + (long)r.below(P32)};
            return r.pick(c);
        };
        auto pick_off = [&]() -> long {
            if (S == 0)
                return small ? r.range(-2, 2) : r.range(-40, 10);
            if (S < 0)
                return r.chance(1, 2) ? r.range(-3, 3) : (r.chance(1, 2) ? far() : -far()) + r.range(-6, 6);
            const long c[] = {0, -1, 1, -S, S, -(S + 5), S / 2, -2 * S, S - 3, -(long)r.below((uint64_t)S)};
            return r.pick(c);
        };
        auto pick_iv = [&]() -> long {
            if (S <= 0)
                return small || S < 0 ? r.range(1, 3) + (S < 0 && r.chance(1, 4) ? r.range(0, 20) : 0) : r.range(1, 25);
            const long c[] = {1, 3, S - 1, S, S + 1, 2 * S + 5, S / 2, S / 2 + 1, 1 + (long)r.below((uint64_t)S)};
            return r.pick(c);
        };
        auto pick_dt = [&](bool wide) -> long {
            if (S == 0)
                return small ? r.range(0, 3) : (wide && r.chance(1, 4) ? r.range(10, 100) : r.range(0, wide ? 5 : 30));
            if (S < 0)
                return r.chance(1, 3) ? far() + r.range(-6, 6) : r.range(0, 4);
            const long c[] = {0, 1, S - 1, S, S + 1, S + 5, 2 * S, S / 2, (long)r.below((uint64_t)S), 3};
            return r.pick(c);
        };
        bool big_seen = false;
        for (int s = 0; s < steps; s++)
        {
            int k = inited ? (int)r.below(10) : (int)r.below(2);
            long off = pick_off(), iv = pick_iv();
            if (!in62((__int128)now + off) || !in62((__int128)now + off + iv + 1) || !in62((__int128)m.start + iv + 1) || !in62((__int128)now + off + m.interval + 1))
                off = 0, iv = 1 + (iv & 3);
            long st = now + off;
            char b[120];
            hh = vf::mix(hh, vf::mix((uint64_t)k, vf::mix((uint64_t)off, (uint64_t)iv)));
            switch (k)
            {
            case 0:
                snprintf(b, sizeof b, "stimer_plan(start=now%+ld, interval=%ld); ", st - now, iv);
                hist += b;
                stimer_plan(t, st, iv);
                m = SRef{true, st, iv};
                inited = true;
                break;
            case 1:
                snprintf(b, sizeof b, "stimer_init(start=now%+ld, interval=%ld); ", st - now, iv);
                hist += b;
                stimer_init(t, st, iv);
                m = SRef{false, st, iv};
                inited = true;
                break;
            case 2:
                snprintf(b, sizeof b, "stimer_start(now%+ld); ", st - now);
                hist += b;
                stimer_start(t, st);
                m.planned = true;
                m.start = st;
                break;
            // the structure is public: direct field writes are part of the API
            case 7:
                snprintf(b, sizeof b, "t->start=now%+ld; ", st - now);
                hist += b;
                t->start = st;
                m.start = st;
                VF_OK("stimer: direct write of a field (start / interval / planed)");
                break;
            case 8:
                snprintf(b, sizeof b, "t->interval=%ld; ", iv);
                hist += b;
                t->interval = iv;
                m.interval = iv;
                VF_OK("stimer: direct write of a field (start / interval / planed)");
                break;
            case 9:
                m.planned = (off ^ iv) & 1;
                hist += m.planned ? "t->planed=1; " : "t->planed=0; ";
                t->planed = m.planned;
                VF_OK("stimer: direct write of a field (start / interval / planed)");
                break;
            case 3:
                if (!in62((__int128)m.start + 2 * (__int128)m.interval + 1))
                    break; // would leave the domain
                hist += "stimer_swift; ";
                stimer_swift(t);
                m.start += m.interval;
                break;
            case 4:
            case 5:
            {
                long dt = pick_dt(true);
                if (!in62((__int128)now + dt) || !in62((__int128)m.start + 2 * (__int128)m.interval + 1))
                    dt = 1;
                now += dt;
                snprintf(b, sizeof b, "now+=%ld, STIMER_PERIODIC; ", dt);
                hist += b;
                bool due = m.planned && now - m.start >= m.interval;
                int ran = 0;
                STIMER_PERIODIC(t, now) { ran++; }
                if ((ran != 0) != due)
                    stimer_fail("stimer:periodic-ran!=due", hist, "STIMER_PERIODIC body ran %d time(s), reference due=%d", ran, (int)due);
                if (due)
                {
                    m.start += m.interval;
                    VF_OK("stimer: STIMER_PERIODIC runs its body iff due and advances by exactly one interval");
                }
                break;
            }
            default:
            {
                long dt = pick_dt(false);
                if (!in62((__int128)now + dt))
                    dt = 1;
                now += dt;
                snprintf(b, sizeof b, "now+=%ld; ", dt);
                hist += b;
            }
            }
            if (vf::verbose())
                printf("  stimer %s\n", hist.c_str() + (hist.size() > 90 ? hist.size() - 90 : 0));
            bool due = m.planned && now - m.start >= m.interval;
            int got = stimer_check(t, now);
            if ((got != 0) != due)
                stimer_fail("stimer:check!=reference", hist, "stimer_check(now)=%d, reference planned=%d now-start=%ld interval=%ld", got, (int)m.planned,
                            now - m.start, m.interval);
            // exactly at, one before, one after the deadline
            long d = m.start + m.interval;
            if (!!stimer_check(t, d) != m.planned || stimer_check(t, d - 1) || !!stimer_check(t, d + 1) != m.planned)
                stimer_fail("stimer:check-at-deadline", hist, "stimer_check at deadline-1/deadline/deadline+1 = %d/%d/%d, reference 0/%d/%d", stimer_check(t, d - 1),
                            stimer_check(t, d), stimer_check(t, d + 1), (int)m.planned, (int)m.planned);
            if ((long)stimer_finish(t) != d || t->start != m.start || t->interval != m.interval)
                stimer_fail("stimer:deadline!=reference", hist, "finish=%ld start=%ld interval=%ld, reference %ld/%ld/%ld", (long)stimer_finish(t), t->start,
                            t->interval, d, m.start, m.interval);
            VF_OK("stimer: stimer_check <=> planned && now-start >= interval (also probed at deadline-1, deadline, deadline+1)");
            VF_OK("stimer: start/interval/finish == reference");
            long el = now - m.start;
            if (m.planned && (el >= P31 || el < -P31 || m.interval >= P31))
                big_seen = true;
        }
        if (big_seen)
            VF_OK("stimer: checked with an elapsed time or interval beyond 32 bits");
        vf::count_case(vf::mix(hh, (uint64_t)(&mg - SMAGS)), steps >= 3);
        free(t);
    }
    uint64_t stimer_count() { return limited("stimer", vf::thorough() ? 200000 : 6000); }
    void stimer_run(uint64_t idx)
    {
        vf::Rng r(vf::seed(), 0x57173, idx);
        const SMag &mg = SMAGS[idx % 3 == 0 ? 0 : 1 + (idx / 3) % (NSMAGS - 1)];
        static int ids[NSMAGS];
        static bool have;
        if (!have)
        {
            for (int i = 0; i < NSMAGS; i++)
                ids[i] = vf::clause_id((std::string("stimer history in magnitude class: ") + SMAGS[i].name).c_str());
            have = true;
        }
        stimer_history(r, idx % 2 ? 60 : 12, idx % 4 < 2, mg);
        vf::clause_hit(ids[&mg - SMAGS]);
    }
    VF_SUITE(stimer, stimer_count, stimer_run)

    // ---- unsigned clocks: timer_spec<uint32_t> / timer_spec<uint64_t> (added after seeded C16-r5s2) -----------------
    // The manager is a template over the time type; tick counters are commonly unsigned. Two classes:
    //  (A) every deadline representable in the type, starts never in the future: the whole statement applies and is
    //      compared with a reference kept in 128-bit arithmetic (online in the callbacks + state after every step);
    //  (B) ONE timer whose deadline start+interval lies beyond the type's maximum while the clock stays in range and
    //      never decreases: under the mathematical and under the modular reading of "deadline" alike it is not due,
    //      so the only clause is "never fires, stays planned". (Several timers with unrepresentable deadlines are not
    //      driven: plan() orders by the wrapped finish(), which the unchanged tree does too - DESIGN 6.)
    template <class T> struct UClock
    {
        using Spec = igris::timer_spec<T>;
        using Mgr = igris::timer_manager_basic<Spec>;
        using Tim = igris::timer_basic<Spec, int>;
        struct Ref
        {
            bool planned = false, oneshot = false;
            unsigned __int128 start = 0, interval = 0;
            unsigned __int128 deadline() const { return start + interval; }
        };
        static inline UClock *cur;
        Mgr *mgr = nullptr;
        Tim *tim[4] = {};
        Ref ref[4];
        int n = 0, fired = 0;
        bool in_exec = false, beyond = false;
        unsigned __int128 now = 0;
        std::string hist;
        static void cb(int i) { cur->on_fire(i); }
        void bad(const char *key, const char *fmt, ...) __attribute__((format(printf, 3, 4)))
        {
            char msg[300];
            va_list ap;
            va_start(ap, fmt);
            vsnprintf(msg, sizeof msg, fmt, ap);
            va_end(ap);
            std::string h = hist.size() > 1200 ? "... " + hist.substr(hist.size() - 1200) : hist;
            vf::fail(key, "%s | %u-bit unsigned clock, history: %s", msg, (unsigned)sizeof(T) * 8, h.c_str());
        }
        void on_fire(int i)
        {
            fired++;
            Ref &r = ref[i];
            if (!in_exec)
                bad("uclock:callback-outside-exec", "timer %d ran outside exec()", i);
            if (!r.planned)
                bad("uclock:unplanned-fired", "timer %d fired although it is not pending in the reference", i);
            if (beyond)
                bad("uclock:fired-before-unrepresentable-deadline", "timer %d fired at now=%llu, start=%llu interval=%llu: its deadline lies beyond the clock's range",
                    i, (unsigned long long)now, (unsigned long long)r.start, (unsigned long long)r.interval);
            if (r.deadline() > now)
                bad("uclock:fired-early", "timer %d fired at now=%llu before its deadline %llu", i, (unsigned long long)now, (unsigned long long)r.deadline());
            for (int k = 0; k < n; k++)
                if (ref[k].planned && ref[k].deadline() < r.deadline())
                    bad("uclock:order", "timer %d (deadline %llu) fired while timer %d (deadline %llu) is pending", i, (unsigned long long)r.deadline(), k,
                        (unsigned long long)ref[k].deadline());
            VF_OK("unsigned clock: fired timer is pending, due and has the minimum pending deadline");
            if (r.oneshot)
            {
                tim[i]->unplan();
                r.planned = false;
            }
            else
                r.start += r.interval;
        }
        void compare()
        {
            bool any = false;
            unsigned __int128 best = 0;
            for (int k = 0; k < n; k++)
            {
                if (tim[k]->is_planned() != ref[k].planned)
                    bad("uclock:pending!=reference", "timer %d is_planned=%d, reference %d", k, (int)tim[k]->is_planned(), (int)ref[k].planned);
                if (!ref[k].planned || beyond)
                    continue;
                if ((unsigned __int128)tim[k]->finish() != ref[k].deadline())
                    bad("uclock:deadline!=reference", "timer %d finish()=%llu, reference %llu", k, (unsigned long long)tim[k]->finish(),
                        (unsigned long long)ref[k].deadline());
                if (!any || ref[k].deadline() < best)
                    best = ref[k].deadline();
                any = true;
            }
            if (!beyond)
            {
                if (mgr->empty() == any)
                    bad("uclock:empty!=reference", "empty()=%d, reference has %s pending timer", (int)mgr->empty(), any ? "a" : "no");
                if (any && best >= now && (unsigned __int128)mgr->minimal_interval((T)now) != best - now)
                    bad("uclock:minimal_interval", "minimal_interval(%llu)=%llu, reference %llu", (unsigned long long)now,
                        (unsigned long long)mgr->minimal_interval((T)now), (unsigned long long)(best - now));
            }
            VF_OK("unsigned clock: pending set, deadlines, empty() and minimal_interval == reference after every step");
        }
        void run(vf::Rng &r, uint64_t &hh)
        {
            cur = this;
            const unsigned __int128 MAXV = (T)~(T)0;
            char b[160];
            beyond = r.below(4) == 0;
            mgr = new Mgr;
            n = beyond ? 1 : 1 + (int)r.below(4);
            for (int i = 0; i < n; i++)
                tim[i] = new Tim(igris::make_delegate(cb), (int)i);
            const int steps = beyond ? 12 : 60;
            if (beyond)
            {
                // start = MAX - a, interval = a + b  (deadline = MAX + b), clock walks from start up to MAX
                uint64_t a = 1 + r.below(r.below(2) ? 40 : 100000), bb = 1 + r.below(r.below(2) ? 3 : 1000);
                now = MAXV - a;
                ref[0].planned = true;
                ref[0].oneshot = false;
                ref[0].start = now;
                ref[0].interval = a + bb;
                mgr->plan(*tim[0], (T)now, (typename Spec::difftime_t)(a + bb));
                snprintf(b, sizeof b, "plan(t0,start=MAX-%llu,interval=%llu); ", (unsigned long long)a, (unsigned long long)(a + bb));
                hist += b;
                hh = vf::mix(hh, a * 1000003 + bb);
                compare();
                for (int s = 0; s < steps; s++)
                {
                    unsigned __int128 room = MAXV - now;
                    uint64_t dt = s == steps - 1 ? (uint64_t)room : (uint64_t)(room ? r.below((uint64_t)room + 1) / (1 + r.below(4)) : 0);
                    now += dt;
                    snprintf(b, sizeof b, "exec(MAX-%llu); ", (unsigned long long)(MAXV - now));
                    hist += b;
                    in_exec = true;
                    mgr->exec((T)now);
                    in_exec = false;
                    compare();
                }
                VF_OK("unsigned clock: a single timer whose deadline lies beyond the clock's range never fires while the clock stays in range");
            }
            else
            {
                static const uint64_t IV[] = {1, 2, 5, 7, 100, 1000};
                int cls = (int)r.below(3);
                // clock bases: small; crossing 2^31; close to the top of the range (everything stays representable)
                now = cls == 0 ? 50 : cls == 1 ? ((unsigned __int128)1 << 31) - 300 : MAXV - 400000;
                hh = vf::mix(hh, cls);
                for (int s = 0; s < steps; s++)
                {
                    int k = (int)r.below(10), t = (int)r.below(n);
                    if (k < 3)
                    {
                        uint64_t off = r.below(2) ? 0 : r.below(20), iv = IV[r.below(6)];
                        bool one = r.below(3) == 0;
                        ref[t].planned = true;
                        ref[t].oneshot = one;
                        ref[t].start = now - off;
                        ref[t].interval = iv;
                        mgr->plan(*tim[t], (T)(now - off), (typename Spec::difftime_t)iv);
                        snprintf(b, sizeof b, "plan(t%d,now-%llu,%llu%s); ", t, (unsigned long long)off, (unsigned long long)iv, one ? ",oneshot" : "");
                        hh = vf::mix(hh, 1 + t * 7 + off * 31 + iv * 1009 + one);
                    }
                    else if (k == 3)
                    {
                        tim[t]->unplan();
                        ref[t].planned = false;
                        snprintf(b, sizeof b, "unplan(t%d); ", t);
                        hh = vf::mix(hh, 2 + t * 7);
                    }
                    else
                    {
                        static const uint64_t DT[] = {0, 1, 1, 2, 3, 5, 20, 40};
                        uint64_t dt = DT[r.below(8)];
                        now += dt;
                        snprintf(b, sizeof b, "exec(now+=%llu); ", (unsigned long long)dt);
                        hh = vf::mix(hh, 3 + dt * 7);
                        int before = fired;
                        in_exec = true;
                        mgr->exec((T)now);
                        in_exec = false;
                        for (int q = 0; q < n; q++)
                            if (ref[q].planned && ref[q].deadline() <= now)
                            {
                                hist += b;
                                bad("uclock:due-not-run", "timer %d (deadline %llu) is still pending and due after exec(%llu)", q, (unsigned long long)ref[q].deadline(),
                                    (unsigned long long)now);
                            }
                        VF_OK("unsigned clock: at the return of exec(now) no pending timer is due");
                        if (fired > before)
                            VF_OK("unsigned clock: exec() that fired at least one callback");
                    }
                    hist += b;
                    compare();
                }
                if (cls == 1)
                    VF_OK("unsigned clock: history crossing 2^31");
                if (cls == 2)
                    VF_OK("unsigned clock: history next to the top of the clock's range");
            }
            for (int i = 0; i < n; i++)
                delete tim[i];
            delete mgr;
            cur = nullptr;
        }
    };
    uint64_t uclock_count() { return limited("uclock", vf::thorough() ? 200000 : 6000); }
    void uclock_run(uint64_t idx)
    {
        vf::Rng r(vf::seed(), 0x0c10c4, idx);
        uint64_t hh = idx & 1;
        bool nt;
        if (idx & 1)
        {
            UClock<uint32_t> u;
            u.run(r, hh);
            nt = u.beyond || u.fired > 0;
            VF_OK("unsigned clock: timer_spec<uint32_t>");
        }
        else
        {
            UClock<uint64_t> u;
            u.run(r, hh);
            nt = u.beyond || u.fired > 0;
            VF_OK("unsigned clock: timer_spec<uint64_t>");
        }
        vf::count_case(hh, nt);
    }
    VF_SUITE(uclock, uclock_count, uclock_run)
} // namespace

extern "C" void vf_setup()
{
    for (const char *c : {"unsigned clock: fired timer is pending, due and has the minimum pending deadline",
                          "unsigned clock: pending set, deadlines, empty() and minimal_interval == reference after every step",
                          "unsigned clock: a single timer whose deadline lies beyond the clock's range never fires while the clock stays in range",
                          "unsigned clock: at the return of exec(now) no pending timer is due", "unsigned clock: exec() that fired at least one callback",
                          "unsigned clock: history crossing 2^31", "unsigned clock: history next to the top of the clock's range",
                          "unsigned clock: timer_spec<uint32_t>", "unsigned clock: timer_spec<uint64_t>"})
        vf::require(c);
    for (const char *c : {"an unplanned timer never fires (every firing timer is pending in the reference)", "never fires before start+interval",
                          "each fired timer has the minimum deadline of the pending set at that moment", "at the return of exec(now) no pending timer is due",
                          "exec() that fired at least one callback", "exec() that fired several callbacks (ordering observable)",
                          "pending set (is_planned of every timer) == reference",
                          "deadline (finish) of every pending timer == reference: re-armed at exactly previous deadline + interval", "empty() == reference",
                          "minimal_interval(now) == time to the earliest reference deadline", "destroying the manager unlinks every pending timer",
                          "destroying a pending timer removes it from the manager",
                          "stimer: STIMER_PERIODIC runs its body iff due and advances by exactly one interval",
                          "stimer: stimer_check <=> planned && now-start >= interval (also probed at deadline-1, deadline, deadline+1)",
                          "stimer: start/interval/finish == reference"})
        vf::require(c);
    for (int a = 0; a < A_COUNT; a++)
        vf::require((std::string("callback action ") + act_name(a)).c_str());
    for (const char *c : {"exhaustive history with every time quantity scaled by >= 2^31", "random history with exec() steps of >= 2^31 ticks",
                          "stimer: checked with an elapsed time or interval beyond 32 bits"})
        vf::require(c);
    vf::require("stimer: direct write of a field (start / interval / planed)");
    for (int k = 0; k < K_COUNT; k++)
        vf::require((std::string("op ") + kind_name(k)).c_str());
    for (const char *c : {"plan form: plan(tim,start,interval)", "plan form: set_start,set_interval,plan(tim)", "plan form: set_interval,set_start,plan(tim)",
                          "plan form: set_start,plan(tim) (interval kept)", "plan form: set_interval,plan(tim) (start kept)"})
        vf::require(c);
    for (int i = 0; i < NMAGS; i++)
        vf::require((std::string("random history in magnitude class: ") + MAGS[i].name).c_str());
    for (int i = 0; i < NSMAGS; i++)
        vf::require((std::string("stimer history in magnitude class: ") + SMAGS[i].name).c_str());
}
