// C06 — igris printf engine, conversions d i u o x X c s p %: differential check against host glibc snprintf.
//
// Observe : every int handed to the output callback (NULs included), the return value, per-case watchdog.
// Oracle  : glibc vsnprintf on the same format and the same variadic call -> bytes equal, return == bytes emitted.
//           %p : own shape oracle (0x + hex digits that parse back, padding to the width on the side '-' selects).
//           %s with a precision gets an exactly-sized, unterminated heap block: ASan decides the over-read clause.
//           compat vsprintf / vfdprintf must deliver the same stream (+ terminator) as the callback interface.
// Only directives ISO C defines are generated (DESIGN §3a C06).
#define VF_MAIN
#include "vf.h"
#include "guard.h"
#include "igpf.h"
#include "pf_nest.h"
#include <climits>
#include <memory>
#include <vector>

extern "C" int igc_vsprintf(char *s, const char *format, va_list ap);
extern "C" int igc_vfdprintf(int fd, const char *format, va_list ap);
extern "C" int igc_sprintf(char *s, const char *format, ...);
extern "C" int igc_fdprintf(int fd, const char *format, ...);

// compat fdprintf.c writes through fdputc(); captured here
static std::string g_fd_bytes;
static int g_fd_seen = -1;
extern "C" int fdputc(int c, int fd)
{
    g_fd_seen = fd;
    g_fd_bytes.push_back((char)c);
    return 1;
}

using pf::Arg;

// ---------------------------------------------------------------- directive model
enum
{
    F_MINUS = 1,
    F_PLUS = 2,
    F_SPACE = 4,
    F_HASH = 8,
    F_ZERO = 16
};
static const char FLAGCH[5] = {'-', '+', ' ', '#', '0'};
static const char *const LEN[8] = {"", "hh", "h", "l", "ll", "j", "z", "t"};
enum
{
    W_NONE,
    W_LIT,
    W_STAR
};
enum
{
    P_NONE,
    P_LIT,
    P_STAR,
    P_DOT
};

struct Dir
{
    unsigned flags = 0;
    unsigned order = 0; // selects the order in which the flags are written
    int wk = W_NONE, width = 0;
    int pk = P_NONE, prec = 0;
    int len = 0;
    char conv = 'd';
    uint64_t val = 0;     // integer conversions / c / p: the argument as its C type sees it (sign-extended)
    uint32_t junk = 0;    // upper half of the 8-byte slot for 32-bit arguments (the ABI leaves it unspecified)
    std::string s;        // %s payload (no terminator inside unless it is meant to end the string early)
    bool unterminated = false;
};

static bool is_signed_conv(char c) { return c == 'd' || c == 'i'; }
static bool is_int_conv(char c) { return c == 'd' || c == 'i' || c == 'u' || c == 'o' || c == 'x' || c == 'X'; }
static bool arg_is_64(const Dir &d) { return d.len >= 3; }
static bool prec_effective(const Dir &d) { return d.pk == P_LIT || d.pk == P_DOT || (d.pk == P_STAR && d.prec >= 0); }
static int prec_value(const Dir &d) { return d.pk == P_DOT ? 0 : d.prec; }

// the value the conversion must render, after the conversion ISO prescribes for the length modifier
static int64_t converted_signed(const Dir &d)
{
    switch (d.len)
    {
    case 0:
        return (int32_t)d.val;
    case 1:
        return (int8_t)d.val;
    case 2:
        return (int16_t)d.val;
    default:
        return (int64_t)d.val;
    }
}
static uint64_t converted_unsigned(const Dir &d)
{
    switch (d.len)
    {
    case 0:
        return (uint32_t)d.val;
    case 1:
        return (uint8_t)d.val;
    case 2:
        return (uint16_t)d.val;
    default:
        return d.val;
    }
}

static std::string dir_text(const Dir &d)
{
    std::string t = "%";
    if (d.conv == '%')
        return "%%";
    // flags in one of several orders
    int idx[5] = {0, 1, 2, 3, 4};
    unsigned o = d.order;
    for (int i = 4; i > 0; i--)
    {
        int j = o % (i + 1);
        o /= (i + 1);
        std::swap(idx[i], idx[j]);
    }
    for (int i = 0; i < 5; i++)
        if (d.flags & (1u << idx[i]))
            t += FLAGCH[idx[i]];
    char b[32];
    if (d.wk == W_LIT)
    {
        snprintf(b, sizeof b, "%d", d.width);
        t += b;
    }
    else if (d.wk == W_STAR)
        t += '*';
    if (d.pk == P_LIT)
    {
        snprintf(b, sizeof b, ".%d", d.prec);
        t += b;
    }
    else if (d.pk == P_STAR)
        t += ".*";
    else if (d.pk == P_DOT)
        t += '.';
    t += LEN[d.len];
    t += d.conv;
    return t;
}

static const char *val_class(const Dir &d)
{
    if (d.conv == '%')
        return "-";
    if (d.conv == 's')
        return d.unterminated ? "unterminated" : d.s.empty() ? "empty" : "str";
    if (d.conv == 'c')
        return (unsigned char)d.val == 0 ? "nul" : ((int32_t)d.val < 0 || (int32_t)d.val > 255) ? "oor" : "chr";
    if (d.conv == 'p')
        return d.val == 0 ? "null" : "ptr";
    if (is_signed_conv(d.conv))
    {
        int64_t v = converted_signed(d);
        int64_t raw = arg_is_64(d) ? (int64_t)d.val : (int64_t)(int32_t)d.val;
        if (v == 0)
            return raw == 0 ? "0" : "oor0";
        int64_t mn = d.len == 0 ? INT32_MIN : d.len == 1 ? INT8_MIN : d.len == 2 ? INT16_MIN : INT64_MIN;
        if (v == mn)
            return "min";
        if (raw != v)
            return v < 0 ? "oor-neg" : "oor-pos";
        if (v < INT32_MIN)
            return "wide-neg";
        if (v > INT32_MAX)
            return "wide-pos";
        return v < 0 ? "neg" : "pos";
    }
    uint64_t u = converted_unsigned(d);
    uint64_t raw = arg_is_64(d) ? d.val : (uint32_t)d.val;
    if (u == 0)
        return raw == 0 ? "0" : "oor0";
    if (raw != u)
        return "oor";
    if (u > UINT32_MAX)
        return "wide";
    if (u > INT32_MAX)
        return "pos-msb";
    return "pos";
}

// feature signature used in keys: no raw numbers
static std::string signature(const Dir &d, bool with_flags, bool with_val)
{
    std::string t = "%";
    if (with_flags)
        for (int i = 0; i < 5; i++)
            if (d.flags & (1u << i))
                t += FLAGCH[i];
    if (d.wk == W_LIT)
        t += 'W';
    else if (d.wk == W_STAR)
        t += d.width < 0 ? "*-" : "*";
    if (d.pk == P_LIT)
        t += d.prec == 0 ? ".0" : ".P";
    else if (d.pk == P_DOT)
        t += ".";
    else if (d.pk == P_STAR)
        t += d.prec < 0 ? ".*-" : d.prec == 0 ? ".*0" : ".*";
    t += LEN[d.len];
    t += d.conv;
    if (with_val)
    {
        t += ':';
        t += val_class(d);
    }
    return t;
}

// ---------------------------------------------------------------- a format = literal pieces and directives
struct Item
{
    bool is_dir;
    std::string lit;
    Dir d;
};
struct Built
{
    std::string fmt;
    std::vector<Arg> args;
    std::vector<std::unique_ptr<vf::Exact>> blocks;
};

static uint64_t slot32(const Dir &d, uint32_t low) { return ((uint64_t)d.junk << 32) | low; }

static void build(const std::vector<Item> &items, Built &b, bool mirror)
{
    for (const Item &it : items)
    {
        if (!it.is_dir)
        {
            b.fmt += it.lit;
            continue;
        }
        const Dir &d = it.d;
        b.fmt += dir_text(d);
        if (d.conv == '%')
            continue;
        if (d.wk == W_STAR)
            b.args.push_back(Arg::mk_i(slot32(d, (uint32_t)d.width)));
        if (d.pk == P_STAR)
            b.args.push_back(Arg::mk_i(slot32(d, (uint32_t)d.prec)));
        if (d.conv == 's')
        {
            // terminated: exact block incl. the terminator; unterminated: exact block of the payload only
            size_t n = d.s.size() + (d.unterminated ? 0 : 1);
            b.blocks.emplace_back(new vf::Exact(d.s.c_str(), n, (unsigned)(d.order % 4), mirror));
            b.args.push_back(Arg::mk_p(b.blocks.back()->p));
        }
        else if (d.conv == 'p' || arg_is_64(d))
            b.args.push_back(Arg::mk_i(d.val));
        else
            b.args.push_back(Arg::mk_i(slot32(d, (uint32_t)d.val)));
    }
}

// coarse input class for crash / hang keys: conversion (+ length), value class, whether a precision bounds it.
// For several directives the class names the most hazardous one (an unterminated %s, else the first) + "+more".
static std::string cls_of(const std::vector<Item> &items)
{
    const Dir *pick = nullptr;
    int n = 0;
    for (const Item &it : items)
        if (it.is_dir && it.d.conv != '%')
        {
            n++;
            if (!pick || (it.d.conv == 's' && it.d.unterminated && !(pick->conv == 's' && pick->unterminated)))
                pick = &it.d;
        }
    if (!pick)
        return "literal";
    const Dir &d = *pick;
    std::string c = "%";
    if (d.wk == W_LIT)
        c += 'W';
    if (d.pk == P_LIT || d.pk == P_DOT)
        c += ".P";
    else if (d.pk == P_STAR)
        c += ".*";
    c += LEN[d.len];
    c += d.conv;
    c += ':';
    c += val_class(d);
    if (n > 1)
        c += "+more";
    return c;
}

// ---------------------------------------------------------------- oracles
enum Outcome
{
    OK,
    BYTES,
    RET,
    RUNAWAY,
    BADCHAR
};
static const char *const OUTCOME[] = {"ok", "bytes", "return", "runaway-output", "callback-char"};

struct Verdict
{
    Outcome o = OK;
    std::string got, want;
    int got_ret = 0, want_ret = 0;
};

// expected rendering of one %p directive checked by shape (glibc prints "(nil)" for NULL, ISO leaves %p open)
static bool p_shape_ok(const Dir &d, const std::string &out, std::string &why)
{
    bool left = (d.flags & F_MINUS) || (d.wk == W_STAR && d.width < 0);
    size_t w = d.wk == W_NONE ? 0 : (size_t)(d.width < 0 ? -(int64_t)d.width : d.width);
    size_t b = 0, e = out.size();
    if (left)
        while (e > b && out[e - 1] == ' ')
            e--;
    else
        while (b < e && out[b] == ' ')
            b++;
    std::string core = out.substr(b, e - b);
    if (core.size() < 3 || core[0] != '0' || core[1] != 'x')
    {
        why = "core does not start with 0x followed by a digit";
        return false;
    }
    uint64_t v = 0;
    for (size_t i = 2; i < core.size(); i++)
    {
        char c = core[i];
        int dg = c >= '0' && c <= '9' ? c - '0' : c >= 'a' && c <= 'f' ? c - 'a' + 10 : -1;
        if (dg < 0)
        {
            why = "non-hex character in the digits";
            return false;
        }
        if (v >> 60)
        {
            why = "more than 64 bits of digits";
            return false;
        }
        v = v * 16 + (unsigned)dg;
    }
    if (v != d.val)
    {
        why = "digits do not parse back to the pointer";
        return false;
    }
    if (out.size() != std::max(w, core.size()))
    {
        why = "padded length != max(width, core)";
        return false;
    }
    return true;
}

static bool single_p(const std::vector<Item> &items)
{
    return items.size() == 1 && items[0].is_dir && items[0].d.conv == 'p';
}

static unsigned long g_feat[64];
enum
{
    FT_CONV = 0,  // 10
    FT_LEN = 10,  // 8
    FT_FLAG = 18, // 5
    FT_WK = 23,   // 3 (+ negative star = 26)
    FT_PK = 27,   // 4 (+ negative star = 31)
    FT_MULTI = 32,
    FT_UNTERM = 33,
    FT_N = 34
};
static const char CONVS[] = "diuoxXcsp%";

static void note_features(const std::vector<Item> &items)
{
    int nd = 0;
    for (const Item &it : items)
        if (it.is_dir)
        {
            const Dir &d = it.d;
            nd++;
            g_feat[FT_CONV + (int)(strchr(CONVS, d.conv) - CONVS)]++;
            if (d.conv == '%')
                continue;
            {
                // parsed-directive state coverage: (conversion, flag set, width form, precision form, length, value class)
                std::string sg = signature(d, true, true);
                vf::state(vf::hash_bytes(sg.data(), sg.size()));
            }
            g_feat[FT_LEN + d.len]++;
            for (int i = 0; i < 5; i++)
                if (d.flags & (1u << i))
                    g_feat[FT_FLAG + i]++;
            g_feat[FT_WK + d.wk]++;
            if (d.wk == W_STAR && d.width < 0)
                g_feat[26]++;
            g_feat[FT_PK + d.pk]++;
            if (d.pk == P_STAR && d.prec < 0)
                g_feat[31]++;
            if (d.conv == 's' && d.unterminated)
                g_feat[FT_UNTERM]++;
        }
    if (nd > 1)
        g_feat[FT_MULTI]++;
}
static void flush_features()
{
    char name[64];
    for (int i = 0; i < FT_N; i++)
    {
        if (!g_feat[i])
            continue;
        if (i < FT_LEN)
            snprintf(name, sizeof name, "seen conversion %%%c", CONVS[i]);
        else if (i < FT_FLAG)
            snprintf(name, sizeof name, "seen length '%s'", LEN[i - FT_LEN]);
        else if (i < FT_WK)
            snprintf(name, sizeof name, "seen flag '%c'", FLAGCH[i - FT_FLAG]);
        else if (i < FT_PK)
            snprintf(name, sizeof name, "seen width %s", i == 23 ? "absent" : i == 24 ? "literal" : i == 25 ? "*" : "* negative");
        else if (i < FT_MULTI)
            snprintf(name, sizeof name, "seen precision %s", i == 27 ? "absent" : i == 28 ? "literal" : i == 29 ? ".*" : i == 30 ? "lone ." : ".* negative");
        else if (i == FT_MULTI)
            snprintf(name, sizeof name, "seen format with several directives");
        else
            snprintf(name, sizeof name, "seen %%s unterminated exact block");
        vf::count(name, g_feat[i]);
        g_feat[i] = 0;
    }
}

// one evaluation of the callback interface against the reference; never throws
static Verdict evaluate(const std::vector<Item> &items, bool mirror, bool also_wrappers, bool counted)
{
    Built b;
    build(items, b, mirror);
    Verdict v;
    if ((int)b.args.size() > pf::MAXARGS)
    {
        fprintf(stderr, "C06: generator produced too many arguments\n");
        abort();
    }
    std::string cls = cls_of(items);
    if (vf::verbose())
        printf("  format=\"%s\" args=[%s] cls=%s\n", vf::esc(b.fmt.data(), b.fmt.size(), 200).c_str(),
               pf::args_text(b.args.data(), (int)b.args.size()).c_str(), cls.c_str());
    vf::cls(cls.c_str());
    pf::Result ig = pf::run_igris(b.fmt.c_str(), b.args.data(), (int)b.args.size());
    v.got = ig.bytes;
    v.got_ret = ig.ret;
    bool p_only = single_p(items);
    if (ig.runaway)
    {
        v.o = RUNAWAY;
        return v;
    }
    if (ig.bad_char)
    {
        v.o = BADCHAR;
        return v;
    }
    if (p_only)
    {
        std::string why;
        if (!p_shape_ok(items[0].d, ig.bytes, why))
        {
            v.o = BYTES;
            v.want = why;
            return v;
        }
        if (counted)
            VF_OK("%p: 0x + hex digits parse back to the pointer, padded to the width");
        v.want_ret = (int)ig.bytes.size();
    }
    else
    {
        pf::Result ref = pf::run_ref(b.fmt.c_str(), b.args.data(), (int)b.args.size());
        v.want = ref.bytes;
        v.want_ret = ref.ret;
        if (ig.bytes != ref.bytes)
        {
            v.o = BYTES;
            return v;
        }
        if (counted)
            VF_OK("callback bytes == ISO C rendering (glibc vsnprintf, same call)");
    }
    if (ig.ret != (int)ig.bytes.size() || ig.ret != v.want_ret)
    {
        v.o = RET;
        return v;
    }
    if (counted)
    {
        VF_OK("return value == number of characters emitted");
        for (const Item &it : items)
            if (it.is_dir && it.d.conv == 's' && it.d.unterminated)
                VF_OK("%s with precision read no further than precision (exact unterminated heap block)");
            else if (it.is_dir && it.d.conv == 's')
                VF_OK("%s read no further than its terminator (exact heap block)");
    }
    if (also_wrappers)
    {
        // compat/libc sprintf.c: same stream + terminator into an exactly-sized destination
        {
            vf::Exact dst(nullptr, ig.bytes.size() + 1);
            vf::cls(("vsprintf:" + cls).c_str());
            int r;
            if (b.fmt.size() & 1)
                r = pf::run_any([](void *ctx, const char *f, va_list ap) { return igc_vsprintf((char *)ctx, f, ap); }, dst.p, b.fmt.c_str(),
                                b.args.data(), (int)b.args.size());
            else
            {
                // the variadic front end
                auto call = [&](auto... xs) { return igc_sprintf((char *)dst.p, b.fmt.c_str(), xs...); };
                r = pf::dispatch(call, b.args.data(), (int)b.args.size());
            }
            if (r != ig.ret || memcmp(dst.p, ig.bytes.data(), ig.bytes.size()) != 0 || dst.p[ig.bytes.size()] != 0)
            {
                vf::fail_nothrow("vsprintf:differs-from-callback-stream", "format=\"%s\" args=[%s] ret=%d expected=%d buffer=\"%s\"",
                                 vf::esc(b.fmt.data(), b.fmt.size()).c_str(), pf::args_text(b.args.data(), (int)b.args.size()).c_str(), r,
                                 ig.ret, vf::esc(dst.p, ig.bytes.size() + 1).c_str());
            }
            else if (counted)
                VF_OK("compat vsprintf/sprintf == callback stream + terminator, return equal");
        }
        {
            g_fd_bytes.clear();
            g_fd_seen = -1;
            vf::cls(("vfdprintf:" + cls).c_str());
            int fd = 77;
            int r;
            if (b.fmt.size() & 1)
                r = pf::run_any([](void *ctx, const char *f, va_list ap) { return igc_vfdprintf(*(int *)ctx, f, ap); }, &fd, b.fmt.c_str(),
                                b.args.data(), (int)b.args.size());
            else
            {
                auto call = [&](auto... xs) { return igc_fdprintf(fd, b.fmt.c_str(), xs...); };
                r = pf::dispatch(call, b.args.data(), (int)b.args.size());
            }
            if (r != ig.ret || g_fd_bytes != ig.bytes || (!ig.bytes.empty() && g_fd_seen != fd))
            {
                vf::fail_nothrow("vfdprintf:differs-from-callback-stream", "format=\"%s\" args=[%s] ret=%d expected=%d bytes=\"%s\"",
                                 vf::esc(b.fmt.data(), b.fmt.size()).c_str(), pf::args_text(b.args.data(), (int)b.args.size()).c_str(), r,
                                 ig.ret, vf::esc(g_fd_bytes.data(), g_fd_bytes.size()).c_str());
            }
            else if (counted)
                VF_OK("compat vfdprintf/fdprintf == callback stream, return equal");
        }
    }
    return v;
}

static bool fails(const Dir &d)
{
    std::vector<Item> one{Item{true, "", d}};
    return evaluate(one, false, false, false).o != OK;
}

// greedy reduction of a failing directive to the features that matter, for a stable and specific key
static Dir minimise(Dir d)
{
    for (int round = 0; round < 6; round++)
    {
        bool changed = false;
        auto attempt = [&](Dir c) {
            if (fails(c))
            {
                d = c;
                changed = true;
                return true;
            }
            return false;
        };
        if (d.order)
        {
            Dir c = d;
            c.order = 0;
            attempt(c);
        }
        if (d.junk)
        {
            Dir c = d;
            c.junk = 0;
            attempt(c);
        }
        if (d.wk == W_STAR && d.width > 0)
        {
            Dir c = d;
            c.wk = W_LIT;
            attempt(c);
        }
        if (d.pk == P_STAR && d.prec >= 0)
        {
            Dir c = d;
            c.pk = P_LIT;
            attempt(c);
        }
        if (d.pk == P_DOT)
        {
            Dir c = d;
            c.pk = P_LIT;
            c.prec = 0;
            attempt(c);
        }
        if (d.wk != W_NONE)
        {
            Dir c = d;
            c.wk = W_NONE;
            c.width = 0;
            attempt(c);
        }
        if (d.pk != P_NONE && !(d.conv == 's' && d.unterminated))
        {
            Dir c = d;
            c.pk = P_NONE;
            c.prec = 0;
            attempt(c);
        }
        for (int i = 0; i < 5; i++)
            if (d.flags & (1u << i))
            {
                Dir c = d;
                c.flags &= ~(1u << i);
                attempt(c);
            }
        if (is_int_conv(d.conv))
        {
            if (d.len)
            {
                // drop the length modifier when the value survives the narrower argument type
                bool fits = is_signed_conv(d.conv) ? ((int64_t)d.val == (int64_t)(int32_t)d.val) && converted_signed(d) == (int32_t)d.val
                                                   : (d.val <= UINT32_MAX) && converted_unsigned(d) == (uint32_t)d.val;
                if (fits)
                {
                    Dir c = d;
                    c.len = 0;
                    attempt(c);
                }
            }
            static const uint64_t simple[3] = {0, 1, (uint64_t)-1};
            bool is_simple = d.val == 0 || d.val == 1 || (is_signed_conv(d.conv) && d.val == (uint64_t)-1);
            if (!is_simple)
                for (int k = 0; k < (is_signed_conv(d.conv) ? 3 : 2); k++)
                {
                    Dir c = d;
                    c.val = simple[k];
                    if (attempt(c))
                        break;
                }
        }
        if (d.conv == 's' && !d.s.empty() && !d.unterminated)
        {
            Dir c = d;
            c.s = "";
            if (!attempt(c))
            {
                c.s = "a";
                if (d.s != "a")
                    attempt(c);
            }
        }
        if (!changed)
            break;
    }
    return d;
}

static void report(const std::vector<Item> &items, const Verdict &v0)
{
    // locate the directive that fails on its own
    const Dir *guilty = nullptr;
    int ndirs = 0;
    for (const Item &it : items)
        if (it.is_dir && it.d.conv != '%')
        {
            ndirs++;
            if (!guilty && fails(it.d))
                guilty = &it.d;
        }
    Built b;
    build(items, b, false);
    std::string full = vf::esc(b.fmt.data(), b.fmt.size(), 160);
    std::string args = pf::args_text(b.args.data(), (int)b.args.size());
    char key[vf::KEY_LEN];
    if (guilty)
    {
        Dir m = minimise(*guilty);
        std::vector<Item> one{Item{true, "", m}};
        Verdict v = evaluate(one, false, false, false);
        Built mb;
        build(one, mb, false);
        snprintf(key, sizeof key, "%s:%s", OUTCOME[v.o == OK ? v0.o : v.o], signature(m, true, true).c_str());
        vf::fail_nothrow(key, "reduced: format=\"%s\" args=[%s] igris=\"%s\" (ret %d) expected=\"%s\" (ret %d) | original: format=\"%s\" args=[%s] igris=\"%s\" (ret %d) expected=\"%s\" (ret %d)",
                         vf::esc(mb.fmt.data(), mb.fmt.size()).c_str(), pf::args_text(mb.args.data(), (int)mb.args.size()).c_str(),
                         vf::esc(v.got.data(), v.got.size()).c_str(), v.got_ret, vf::esc(v.want.data(), v.want.size()).c_str(), v.want_ret,
                         full.c_str(), args.c_str(), vf::esc(v0.got.data(), v0.got.size()).c_str(), v0.got_ret,
                         vf::esc(v0.want.data(), v0.want.size()).c_str(), v0.want_ret);
    }
    else
    {
        // every directive is fine alone: the defect is in the sequencing (literal text, state carried between directives)
        bool has_pc = false, has_lit = false;
        for (const Item &it : items)
        {
            has_pc |= it.is_dir && it.d.conv == '%';
            has_lit |= !it.is_dir && !it.lit.empty();
        }
        snprintf(key, sizeof key, "%s:sequence:%d-directives%s%s", OUTCOME[v0.o], ndirs, has_pc ? "+%%" : "", has_lit ? "+literal" : "");
        vf::fail_nothrow(key, "format=\"%s\" args=[%s] igris=\"%s\" (ret %d) expected=\"%s\" (ret %d)", full.c_str(), args.c_str(),
                         vf::esc(v0.got.data(), v0.got.size()).c_str(), v0.got_ret, vf::esc(v0.want.data(), v0.want.size()).c_str(), v0.want_ret);
    }
}

static uint64_t hash_items(const std::vector<Item> &items)
{
    uint64_t h = 0x1234;
    for (const Item &it : items)
    {
        if (!it.is_dir)
        {
            h = vf::hash_bytes(it.lit.data(), it.lit.size(), h);
            continue;
        }
        const Dir &d = it.d;
        std::string t = dir_text(d);
        h = vf::hash_bytes(t.data(), t.size(), h);
        h = vf::mix(h, d.val);
        h = vf::mix(h, ((uint64_t)(uint32_t)d.width << 32) | (uint32_t)d.prec);
        h = vf::hash_bytes(d.s.data(), d.s.size(), h ^ d.unterminated);
    }
    return h;
}

static void run_format(const std::vector<Item> &items, bool mirror, bool wrappers)
{
    if (pf::skip_after_hangs())
    {
        VF_OK("skipped: the run already recorded repeated hangs");
        return;
    }
    Verdict v = evaluate(items, mirror, wrappers, true);
    note_features(items);
    bool nontrivial = false;
    for (const Item &it : items)
        if (it.is_dir && it.d.conv != '%')
            nontrivial = true;
    vf::count_case(hash_items(items), nontrivial);
    if (v.o != OK)
        report(items, v);
    if (vf::want_sample() && nontrivial && items.size() > 1)
    {
        Built b;
        build(items, b, false);
        vf::sample("format=\"%s\" args=[%s] -> \"%s\"", vf::esc(b.fmt.data(), b.fmt.size()).c_str(),
                   pf::args_text(b.args.data(), (int)b.args.size()).c_str(), vf::esc(v.got.data(), v.got.size()).c_str());
    }
}

// ---------------------------------------------------------------- value sets
static std::vector<uint64_t> values32(bool big)
{
    std::vector<uint64_t> v = {0, 1, (uint64_t)-1, 9, 10, 42, 127, 128, 255, 256, (uint64_t)-128, (uint64_t)-129, 32767, 32768, 65535,
                               65536, (uint64_t)-32768, (uint64_t)-32769, (uint64_t)INT32_MAX, (uint64_t)(int64_t)INT32_MIN,
                               (uint64_t)(int64_t)(INT32_MIN + 1), 0x12345678, (uint64_t)(int64_t)(int32_t)0xdeadbeef};
    if (big)
    {
        int64_t p = 1;
        for (int k = 1; k <= 9; k++)
        {
            p *= 10;
            v.push_back((uint64_t)(p - 1));
            v.push_back((uint64_t)p);
            v.push_back((uint64_t)(p + 1));
            v.push_back((uint64_t)(-p));
            v.push_back((uint64_t)(-p + 1));
        }
        for (int k = 2; k < 31; k += 3)
        {
            v.push_back((1ull << k) - 1);
            v.push_back((uint64_t)(-(int64_t)(1ull << k)));
        }
    }
    return v;
}
static std::vector<uint64_t> values64(bool big)
{
    std::vector<uint64_t> v = values32(big);
    const uint64_t extra[] = {0x80000000ull, 0x80000001ull, 0xffffffffull, 0x100000000ull, 0x100000001ull, (uint64_t)-2147483649ll,
                              (uint64_t)INT64_MAX, (uint64_t)INT64_MIN, (uint64_t)(INT64_MIN + 1), UINT64_MAX - 1, 1000000000000000000ull,
                              10000000000000000000ull, 0x123456789abcdef0ull, (uint64_t)-1000000000000ll};
    for (uint64_t e : extra)
        v.push_back(e);
    if (big)
    {
        uint64_t p = 1000000000ull;
        for (int k = 10; k <= 19; k++)
        {
            p *= 10;
            v.push_back(p - 1);
            v.push_back(p);
            v.push_back(p + 1);
            if (k <= 18)
                v.push_back((uint64_t)(-(int64_t)p));
        }
        for (int k = 31; k < 64; k += 2)
        {
            v.push_back((1ull << k) - 1);
            v.push_back(1ull << k);
            v.push_back((uint64_t)(-(int64_t)(1ull << k)) - 1);
        }
    }
    return v;
}

// ---------------------------------------------------------------- suite 1: smoke — one elementary directive per case
// (kept one call per case so that a hang or crash is attributed to exactly one directive class)
struct Smoke
{
    const char *what;
    Dir d;
};
static std::vector<Smoke> smoke_list()
{
    std::vector<Smoke> L;
    auto add = [&](const char *what, char conv, unsigned flags, int wk, int w, int pk, int p, int len, uint64_t val, const char *s = "",
                   bool unterm = false) {
        Dir d;
        d.conv = conv;
        d.flags = flags;
        d.wk = wk;
        d.width = w;
        d.pk = pk;
        d.prec = p;
        d.len = len;
        d.val = val;
        d.s = s;
        d.unterminated = unterm;
        L.push_back(Smoke{what, d});
    };
    add("plain %d", 'd', 0, W_NONE, 0, P_NONE, 0, 0, 42);
    add("negative %d", 'd', 0, W_NONE, 0, P_NONE, 0, 0, (uint64_t)-42);
    add("literal width", 'd', 0, W_LIT, 5, P_NONE, 0, 0, 42);
    add("literal two-digit width", 'd', 0, W_LIT, 12, P_NONE, 0, 0, 42);
    add("literal precision", 'd', 0, W_NONE, 0, P_LIT, 3, 0, 42);
    add("literal precision 0", 'd', 0, W_NONE, 0, P_LIT, 0, 0, 42);
    add("lone period", 'd', 0, W_NONE, 0, P_DOT, 0, 0, 42);
    add("width and precision", 'd', 0, W_LIT, 8, P_LIT, 3, 0, 42);
    add("star width", 'd', 0, W_STAR, 5, P_NONE, 0, 0, 42);
    add("negative star width", 'd', 0, W_STAR, -5, P_NONE, 0, 0, 42);
    add("star precision", 'd', 0, W_NONE, 0, P_STAR, 3, 0, 42);
    add("negative star precision", 'd', 0, W_NONE, 0, P_STAR, -3, 0, 42);
    add("zero flag + width", 'd', F_ZERO, W_LIT, 5, P_NONE, 0, 0, (uint64_t)-42);
    add("minus flag + width", 'd', F_MINUS, W_LIT, 5, P_NONE, 0, 0, 42);
    add("plus flag", 'd', F_PLUS, W_NONE, 0, P_NONE, 0, 0, 42);
    add("space flag", 'd', F_SPACE, W_NONE, 0, P_NONE, 0, 0, 42);
    add("INT_MIN", 'd', 0, W_NONE, 0, P_NONE, 0, 0, (uint64_t)(int64_t)INT32_MIN);
    add("%lld beyond 32 bits negative", 'd', 0, W_NONE, 0, P_NONE, 0, 4, (uint64_t)-5000000000ll);
    add("%lld LLONG_MIN", 'd', 0, W_NONE, 0, P_NONE, 0, 4, (uint64_t)INT64_MIN);
    add("%hhd of 300", 'd', 0, W_NONE, 0, P_NONE, 0, 1, 300);
    add("%hd of 70000", 'd', 0, W_NONE, 0, P_NONE, 0, 2, 70000);
    add("%.0d of 0", 'd', 0, W_NONE, 0, P_LIT, 0, 0, 0);
    add("precision with negative", 'd', 0, W_NONE, 0, P_STAR, 4, 0, (uint64_t)-42);
    add("0 flag with precision", 'd', F_ZERO, W_STAR, 8, P_STAR, 3, 0, 42);
    add("%u max", 'u', 0, W_NONE, 0, P_NONE, 0, 0, 0xffffffffu);
    add("%o", 'o', 0, W_NONE, 0, P_NONE, 0, 0, 8);
    add("%#o of 0", 'o', F_HASH, W_NONE, 0, P_NONE, 0, 0, 0);
    add("%#o", 'o', F_HASH, W_NONE, 0, P_NONE, 0, 0, 8);
    add("%x", 'x', 0, W_NONE, 0, P_NONE, 0, 0, 0xbeef);
    add("%X", 'X', 0, W_NONE, 0, P_NONE, 0, 0, 0xbeef);
    add("%#x", 'x', F_HASH, W_NONE, 0, P_NONE, 0, 0, 0xbeef);
    add("%#x of 0", 'x', F_HASH, W_NONE, 0, P_NONE, 0, 0, 0);
    add("%#X zero padded", 'X', F_HASH | F_ZERO, W_STAR, 10, P_NONE, 0, 0, 0xbeef);
    add("%zu", 'u', 0, W_NONE, 0, P_NONE, 0, 6, UINT64_MAX);
    add("%jd", 'd', 0, W_NONE, 0, P_NONE, 0, 5, (uint64_t)INT64_MAX);
    add("%td", 'd', 0, W_NONE, 0, P_NONE, 0, 7, (uint64_t)-7);
    add("%lx", 'x', 0, W_NONE, 0, P_NONE, 0, 3, 0x123456789abcull);
    add("%c", 'c', 0, W_NONE, 0, P_NONE, 0, 0, 'A');
    add("%c of NUL", 'c', 0, W_NONE, 0, P_NONE, 0, 0, 0);
    add("%c of 0x80", 'c', 0, W_NONE, 0, P_NONE, 0, 0, 0x80);
    add("%c with star width", 'c', 0, W_STAR, 3, P_NONE, 0, 0, 'A');
    add("%-*c", 'c', F_MINUS, W_STAR, 3, P_NONE, 0, 0, 'A');
    add("%s", 's', 0, W_NONE, 0, P_NONE, 0, 0, 0, "hello");
    add("%s empty", 's', 0, W_NONE, 0, P_NONE, 0, 0, 0, "");
    add("%s star width", 's', 0, W_STAR, 8, P_NONE, 0, 0, 0, "hello");
    add("%-*s", 's', F_MINUS, W_STAR, 8, P_NONE, 0, 0, 0, "hello");
    add("%.*s terminated", 's', 0, W_NONE, 0, P_STAR, 3, 0, 0, "hello");
    add("%.*s unterminated", 's', 0, W_NONE, 0, P_STAR, 5, 0, 0, "hello", true);
    add("%.0s unterminated", 's', 0, W_NONE, 0, P_STAR, 0, 0, 0, "", true);
    add("%.3s literal unterminated", 's', 0, W_NONE, 0, P_LIT, 3, 0, 0, "hel", true);
    add("%p", 'p', 0, W_NONE, 0, P_NONE, 0, 0, 0x7ffdeadbeef0ull);
    add("%p of NULL", 'p', 0, W_NONE, 0, P_NONE, 0, 0, 0);
    add("%p star width", 'p', 0, W_STAR, 24, P_NONE, 0, 0, 0x1234);
    add("%-*p", 'p', F_MINUS, W_STAR, 24, P_NONE, 0, 0, 0x1234);
    add("%%", '%', 0, W_NONE, 0, P_NONE, 0, 0, 0);
    return L;
}
static const char *only_suite() { return getenv("C06_ONLY"); }
static bool enabled(const char *suite)
{
    const char *o = only_suite();
    return !o || !*o || strcmp(o, suite) == 0;
}
static uint64_t smoke_count() { return enabled("smoke") ? smoke_list().size() + 3 : 0; }
static void smoke_run(uint64_t idx)
{
    static std::vector<Smoke> L = smoke_list();
    std::vector<Item> items;
    if (idx < L.size())
    {
        if (vf::verbose())
            printf("  smoke: %s\n", L[idx].what);
        items.push_back(Item{true, "", L[idx].d});
    }
    else if (idx == L.size())
        items.push_back(Item{false, "plain text, no directive", Dir()});
    else if (idx == L.size() + 1)
        items.push_back(Item{false, "", Dir()}); // empty format
    else
    {
        Dir a, b;
        a.conv = 'd';
        a.val = 7;
        b.conv = 's';
        b.s = "x";
        Dir pc;
        pc.conv = '%';
        items = {Item{false, "a=", Dir()}, Item{true, "", a}, Item{false, " 100", Dir()}, Item{true, "", pc}, Item{false, " s=", Dir()},
                 Item{true, "", b}, Item{false, ".", Dir()}};
    }
    run_format(items, false, true);
    flush_features();
}
VF_SUITE(smoke, smoke_count, smoke_run)

// ---------------------------------------------------------------- suite 2: grid — the full single-directive product
struct Shape
{
    char conv;
    unsigned flags;
    int wsel, psel, len;
};
static const int WSEL = 6; // none, 1, 5, 12, *+, *-
static const int PSEL = 8; // none, .0, .1, .5, .12, .*, .* negative, lone .
static std::vector<Shape> g_shapes;
static void make_shapes()
{
    if (!g_shapes.empty())
        return;
    auto gen = [&](char conv, unsigned allowed, bool has_prec, bool has_len) {
        for (unsigned f = 0; f < 32; f++)
        {
            if (f & ~allowed)
                continue;
            for (int w = 0; w < WSEL; w++)
                for (int p = 0; p < (has_prec ? PSEL : 1); p++)
                    for (int l = 0; l < (has_len ? 8 : 1); l++)
                        g_shapes.push_back(Shape{conv, f, w, p, l});
        }
    };
    gen('d', F_MINUS | F_PLUS | F_SPACE | F_ZERO, true, true);
    gen('i', F_MINUS | F_PLUS | F_SPACE | F_ZERO, true, true);
    gen('u', F_MINUS | F_ZERO, true, true);
    gen('o', F_MINUS | F_HASH | F_ZERO, true, true);
    gen('x', F_MINUS | F_HASH | F_ZERO, true, true);
    gen('X', F_MINUS | F_HASH | F_ZERO, true, true);
    gen('c', F_MINUS, false, false);
    gen('s', F_MINUS, true, false);
    gen('p', F_MINUS, false, false);
}
static void apply_shape(Dir &d, const Shape &s, vf::Rng &r)
{
    static const int WV[4] = {0, 1, 5, 12};
    static const int PV[5] = {0, 0, 1, 5, 12};
    d.conv = s.conv;
    d.flags = s.flags;
    d.len = s.len;
    d.order = (unsigned)r.below(120);
    if (s.wsel == 0)
        d.wk = W_NONE;
    else if (s.wsel <= 3)
        d.wk = W_LIT, d.width = WV[s.wsel];
    else
    {
        static const int SW[5] = {0, 1, 7, 12, 30};
        int m = SW[r.below(5)];
        d.wk = W_STAR;
        d.width = s.wsel == 4 ? m : -(m ? m : 9);
    }
    if (s.psel == 0)
        d.pk = P_NONE;
    else if (s.psel <= 4)
        d.pk = P_LIT, d.prec = PV[s.psel];
    else if (s.psel == 5)
    {
        static const int SP[6] = {0, 1, 2, 7, 20, 30};
        d.pk = P_STAR, d.prec = SP[r.below(6)];
    }
    else if (s.psel == 6)
        d.pk = P_STAR, d.prec = -(int)r.range(1, 20);
    else
        d.pk = P_DOT, d.prec = 0;
}
static uint64_t grid_count()
{
    if (!enabled("grid"))
        return 0;
    make_shapes();
    return g_shapes.size();
}
static const char *const STRS[] = {"", "a", "hello", "hello, world", "%d%s%n", "\x80\xff\x01 tab\t", "0123456789abcdefghijklmnopqrstuvwxyz"};
static void grid_run(uint64_t idx)
{
    make_shapes();
    const Shape &s = g_shapes[idx];
    vf::Rng r(vf::seed(), 0xC06, idx);
    static const std::vector<uint64_t> V32q = values32(false), V64q = values64(false), V32t = values32(true), V64t = values64(true);
    bool mirror = (idx & 1) != 0;
    if (is_int_conv(s.conv))
    {
        const std::vector<uint64_t> &V = s.len >= 3 ? (vf::thorough() ? V64t : V64q) : (vf::thorough() ? V32t : V32q);
        size_t k = 0;
        for (uint64_t val : V)
        {
            Dir d;
            apply_shape(d, s, r);
            d.val = s.len >= 3 ? val : (uint64_t)(uint32_t)val;
            if (s.len < 3 && (k & 1))
                d.junk = (uint32_t)r.next() | 1u;
            run_format({Item{true, "", d}}, mirror, (k % 4) == (idx % 4));
            k++;
        }
    }
    else if (s.conv == 'c')
    {
        static const int CV[] = {'A', 0, ' ', '%', 0x7f, 0x80, 0xff, 256 + 'B', -1, -191, INT_MIN, INT_MAX};
        int k = 0;
        for (int c : CV)
        {
            Dir d;
            apply_shape(d, s, r);
            d.val = (uint32_t)c;
            if (k & 1)
                d.junk = (uint32_t)r.next() | 1u;
            run_format({Item{true, "", d}}, mirror, true);
            k++;
        }
    }
    else if (s.conv == 's')
    {
        for (const char *str : STRS)
            for (int variant = 0; variant < 3; variant++)
            {
                Dir d;
                apply_shape(d, s, r);
                d.s = str;
                if (variant >= 1)
                {
                    // unterminated block: only legal when an effective precision bounds the read; the block then
                    // holds exactly `precision` bytes (variant 1) or more (variant 2), none of them NUL
                    if (!prec_effective(d))
                        continue;
                    size_t need = (size_t)prec_value(d) + (variant == 2 ? 3 : 0);
                    while (d.s.size() < need)
                        d.s += (char)('a' + d.s.size() % 26);
                    if (variant == 1)
                        d.s.resize(need);
                    d.unterminated = true;
                }
                run_format({Item{true, "", d}}, mirror, true);
            }
    }
    else if (s.conv == 'p')
    {
        int local = 0;
        vf::Exact heap(nullptr, 8);
        const uint64_t PV[] = {0, 1, 0xdeadbeefull, (uint64_t)(uintptr_t)&local, (uint64_t)(uintptr_t)heap.p, UINT64_MAX, 0x8000000000000000ull,
                               0x0000123456789abcull};
        for (uint64_t p : PV)
        {
            Dir d;
            apply_shape(d, s, r);
            d.val = p;
            run_format({Item{true, "", d}}, mirror, false);
        }
    }
    flush_features();
}
VF_SUITE(grid, grid_count, grid_run)

// ---------------------------------------------------------------- suite 3: random formats, 1..3 directives + literal text + %%
static uint64_t rnd_count()
{
    if (!enabled("random"))
        return 0;
    return vf::thorough() ? 40000 : 2500;
}
static uint64_t rand_value(vf::Rng &r, bool wide)
{
    int mode = (int)r.below(8);
    int bits = wide ? 64 : 32;
    uint64_t v;
    switch (mode)
    {
    case 0:
    {
        static const std::vector<uint64_t> A = values64(true);
        v = A[r.below(A.size())];
        break;
    }
    case 1:
        v = r.next();
        break;
    case 2:
    case 3:
    {
        int b = (int)r.range(1, bits);
        v = r.next() >> (64 - b); // random magnitude with a random bit length
        if (r.chance(1, 2))
            v = (uint64_t)(-(int64_t)v);
        break;
    }
    case 4:
    {
        uint64_t p = 1;
        int k = (int)r.range(0, wide ? 19 : 9);
        for (int i = 0; i < k; i++)
            p *= 10;
        v = p + (uint64_t)r.range(-1, 1);
        if (r.chance(1, 3))
            v = (uint64_t)(-(int64_t)v);
        break;
    }
    case 5:
        v = (1ull << r.below(bits)) - (uint64_t)r.below(2);
        break;
    default:
        v = (uint64_t)(int64_t)r.range(-300, 300);
    }
    if (!wide)
        v = (uint64_t)(int64_t)(int32_t)v;
    return v;
}
static std::string rand_literal(vf::Rng &r)
{
    static const char *const L[] = {"", " ", "x=", ", ", "[", "]", "0x", "abc def", "\n", "\t|", "100", "-", "+.", "long literal text with spaces "};
    if (r.chance(1, 6))
    {
        std::string s;
        int n = (int)r.range(1, 12);
        for (int i = 0; i < n; i++)
        {
            char c = (char)r.range(1, 255);
            if (c == '%')
                c = '_';
            s += c;
        }
        return s;
    }
    return L[r.below(sizeof L / sizeof L[0])];
}
static void rand_dir(vf::Rng &r, Dir &d, int &budget, bool allow_p)
{
    static const char C[] = "ddiuoxXcssp";
    do
        d.conv = C[r.below(sizeof C - 1)];
    while (d.conv == 'p' && !allow_p);
    unsigned allowed = is_signed_conv(d.conv) ? (F_MINUS | F_PLUS | F_SPACE | F_ZERO)
                       : d.conv == 'u'        ? (F_MINUS | F_ZERO)
                       : is_int_conv(d.conv)  ? (F_MINUS | F_HASH | F_ZERO)
                                              : F_MINUS;
    d.flags = (unsigned)r.next() & allowed;
    if (r.chance(1, 2))
        d.flags &= (unsigned)r.next();
    d.order = (unsigned)r.below(120);
    budget -= 1; // the value itself
    int w = (int)r.below(6);
    if (w >= 4 && budget > 0)
    {
        d.wk = W_STAR;
        d.width = (int)r.range(-40, 40);
        budget--;
    }
    else if (w >= 2)
    {
        d.wk = W_LIT;
        d.width = r.chance(1, 40) ? (int)r.range(41, 300) : (int)r.range(1, 40);
    }
    if (d.conv != 'c' && d.conv != 'p')
    {
        int p = (int)r.below(8);
        if (p >= 6 && budget > 0)
        {
            d.pk = P_STAR;
            d.prec = (int)r.range(-5, 40);
            budget--;
        }
        else if (p >= 3)
        {
            d.pk = P_LIT;
            d.prec = r.chance(1, 4) ? 0 : r.chance(1, 40) ? (int)r.range(41, 300) : (int)r.range(1, 40);
        }
        else if (p == 2)
            d.pk = P_DOT;
    }
    if (is_int_conv(d.conv))
    {
        d.len = r.chance(1, 3) ? 0 : (int)r.below(8);
        d.val = rand_value(r, d.len >= 3);
        if (d.len < 3)
        {
            d.val = (uint32_t)d.val;
            if (r.chance(1, 2))
                d.junk = (uint32_t)r.next();
        }
    }
    else if (d.conv == 'c')
    {
        d.val = (uint32_t)(r.chance(1, 8) ? (int)r.next() : (int)r.range(0, 255));
        if (r.chance(1, 2))
            d.junk = (uint32_t)r.next();
    }
    else if (d.conv == 's')
    {
        int n = r.chance(1, 5) ? 0 : (int)r.range(1, 45);
        for (int i = 0; i < n; i++)
            d.s += (char)(r.chance(1, 10) ? r.range(1, 255) : r.range(0x20, 0x7e));
        if (prec_effective(d) && r.chance(1, 2))
        {
            // unterminated: at least `precision` bytes without a NUL
            size_t need = (size_t)prec_value(d) + (size_t)r.below(3);
            while (d.s.size() < need)
                d.s += (char)('A' + d.s.size() % 26);
            d.s.resize(need);
            d.unterminated = true;
        }
    }
    else if (d.conv == 'p')
        d.val = r.chance(1, 6) ? 0 : r.next() >> r.below(48);
}
static void rnd_run(uint64_t idx)
{
    vf::Rng r(vf::seed(), 0xC06F, idx);
    for (int rep = 0; rep < 40; rep++)
    {
        std::vector<Item> items;
        int nd = (int)r.range(1, 3);
        if (r.chance(1, 12))
        {
            // a lone %p (shape oracle; cannot be mixed with the glibc comparison)
            Dir d;
            int budget = 3;
            do
            {
                d = Dir();
                budget = 3;
                rand_dir(r, d, budget, true);
            } while (d.conv != 'p');
            items.push_back(Item{true, "", d});
            run_format(items, r.chance(1, 2), false);
            continue;
        }
        int budget = pf::MAXARGS;
        if (r.chance(2, 3))
            items.push_back(Item{false, rand_literal(r), Dir()});
        for (int i = 0; i < nd; i++)
        {
            if (r.chance(1, 6))
            {
                Dir pc;
                pc.conv = '%';
                items.push_back(Item{true, "", pc});
            }
            Dir d;
            // keep room for the values of the directives still to come
            int mine = budget - (nd - 1 - i);
            int before = mine;
            rand_dir(r, d, mine, false);
            budget -= before - mine;
            items.push_back(Item{true, "", d});
            if (r.chance(2, 3))
                items.push_back(Item{false, rand_literal(r), Dir()});
        }
        run_format(items, r.chance(1, 2), r.chance(1, 3));
    }
    flush_features();
}
VF_SUITE(random, rnd_count, rnd_run)

// ---------------------------------------------------------------- suite 5: ordered pairs — state leaking from one directive into the next
// Every ordered pair (A, B) of a reduced set of directive shapes (bare d i u o x X c s, decorated ones with every flag,
// literal and '*' width/precision, length modifiers, %%), A and B separated by literal text or adjacent, also embedded in
// a third directive; compared with glibc as a whole (bytes, return) — a leak is then reduced to "sequence" keys.
enum
{
    NPAIRSHAPES = 28
};
static Dir pair_shape(int k, vf::Rng &r)
{
    Dir d;
    auto set = [&](char conv, unsigned flags, int wk, int w, int pk, int p, int len) {
        d.conv = conv;
        d.flags = flags;
        d.wk = wk;
        d.width = w;
        d.pk = pk;
        d.prec = p;
        d.len = len;
    };
    static const char BARE[] = "diuoxXcs";
    if (k < 8)
        set(BARE[k], 0, W_NONE, 0, P_NONE, 0, 0);
    else
        switch (k)
        {
        case 8:
            set('d', 0, W_LIT, 9, P_NONE, 0, 0);
            break;
        case 9:
            set('d', F_MINUS, W_LIT, 9, P_NONE, 0, 0);
            break;
        case 10:
            set('d', F_ZERO, W_LIT, 9, P_NONE, 0, 0);
            break;
        case 11:
            set('d', F_PLUS, W_NONE, 0, P_LIT, 6, 0);
            break;
        case 12:
            set('i', F_SPACE, W_NONE, 0, P_NONE, 0, 0);
            break;
        case 13:
            set('x', F_HASH, W_NONE, 0, P_NONE, 0, 0);
            break;
        case 14:
            set('X', F_HASH | F_ZERO, W_LIT, 12, P_NONE, 0, 4);
            break;
        case 15:
            set('o', F_HASH | F_MINUS, W_LIT, 10, P_NONE, 0, 3);
            break;
        case 16:
            set('u', 0, W_STAR, 11, P_NONE, 0, 0);
            break;
        case 17:
            set('d', 0, W_STAR, -11, P_STAR, 4, 0);
            break;
        case 18:
            set('d', 0, W_NONE, 0, P_STAR, -2, 0);
            break;
        case 19:
            set('d', 0, W_NONE, 0, P_DOT, 0, 0);
            break;
        case 20:
            set('d', 0, W_NONE, 0, P_NONE, 0, 1); // hh
            break;
        case 21:
            set('u', 0, W_NONE, 0, P_NONE, 0, 2); // h
            break;
        case 22:
            set('d', 0, W_NONE, 0, P_NONE, 0, 4); // ll
            break;
        case 23:
            set('s', 0, W_LIT, 10, P_NONE, 0, 0);
            break;
        case 24:
            set('s', F_MINUS, W_STAR, 10, P_LIT, 2, 0);
            break;
        case 25:
            set('c', 0, W_LIT, 4, P_NONE, 0, 0);
            break;
        case 26:
            set('c', F_MINUS, W_STAR, 3, P_NONE, 0, 0);
            break;
        default:
            set('%', 0, W_NONE, 0, P_NONE, 0, 0);
        }
    if (is_int_conv(d.conv))
    {
        d.val = rand_value(r, d.len >= 3);
        if (d.len < 3)
            d.val = (uint32_t)d.val;
    }
    else if (d.conv == 'c')
        d.val = (uint32_t)r.range('A', 'z');
    else if (d.conv == 's')
        d.s = r.chance(1, 4) ? "" : "string";
    return d;
}
static uint64_t pairs_count() { return enabled("pairs") ? (uint64_t)NPAIRSHAPES * NPAIRSHAPES : 0; }
static void pairs_run(uint64_t idx)
{
    vf::Rng r(vf::seed(), 0xC06D, idx);
    int a = (int)(idx / NPAIRSHAPES), b = (int)(idx % NPAIRSHAPES);
    int reps = vf::thorough() ? 6 : 2;
    for (int rep = 0; rep < reps; rep++)
    {
        Dir A = pair_shape(a, r), B = pair_shape(b, r);
        std::vector<Item> items;
        if (rep & 1)
            items.push_back(Item{false, "v=", Dir()});
        items.push_back(Item{true, "", A});
        if (rep != 1)
            items.push_back(Item{false, rep == 0 ? "|" : ", ", Dir()});
        items.push_back(Item{true, "", B});
        auto nargs = [](const Dir &d) { return d.conv == '%' ? 0 : 1 + (d.wk == W_STAR) + (d.pk == P_STAR); };
        if (rep >= 2)
        {
            Dir C = pair_shape((int)r.below(NPAIRSHAPES), r);
            if (nargs(A) + nargs(B) + nargs(C) <= pf::MAXARGS)
            {
                items.push_back(Item{false, "|", Dir()});
                items.push_back(Item{true, "", C});
            }
        }
        run_format(items, (rep & 1) != 0, false);
        VF_OK("ordered pair of directive shapes evaluated");
    }
    flush_features();
}
VF_SUITE(pairs, pairs_count, pairs_run)

// ---------------------------------------------------------------- suite 4: re-entrancy — the output callback formats through the engine
// (pf_nest.h) every (outer, inner) pair of a table of d i u o x X p c s f e g calls with widths/precisions; the inner
// call is injected at every callback invocation of the outer one; both streams and return values must be unchanged.
static uint64_t reent_count() { return enabled("reentrant") ? pf::reentrancy_count() : 0; }
static void reent_run(uint64_t idx)
{
    if (pf::skip_after_hangs())
        return;
    pf::reentrancy_run(idx, false, 0xC06E);
}
VF_SUITE(reentrant, reent_count, reent_run)

extern "C" void vf_setup()
{
    pf::setup();
    if (only_suite() && *only_suite())
        return; // partial debugging run: no completeness demands
    vf::require("re-entrancy: outer and inner stream and return value unchanged by the overlap");
    vf::require("ordered pair of directive shapes evaluated");
    for (const char *c : {"callback bytes == ISO C rendering (glibc vsnprintf, same call)", "return value == number of characters emitted",
                          "%p: 0x + hex digits parse back to the pointer, padded to the width",
                          "%s with precision read no further than precision (exact unterminated heap block)",
                          "%s read no further than its terminator (exact heap block)",
                          "compat vsprintf/sprintf == callback stream + terminator, return equal", "compat vfdprintf/fdprintf == callback stream, return equal",
                          "seen format with several directives", "seen %s unterminated exact block", "seen width literal", "seen width *",
                          "seen width * negative", "seen precision literal", "seen precision .*", "seen precision .* negative",
                          "seen precision lone ."})
        vf::require(c);
    char name[64];
    for (const char *p = CONVS; *p; p++)
    {
        snprintf(name, sizeof name, "seen conversion %%%c", *p);
        vf::require(name);
    }
    for (int i = 1; i < 8; i++)
    {
        snprintf(name, sizeof name, "seen length '%s'", LEN[i]);
        vf::require(name);
    }
    for (int i = 0; i < 5; i++)
    {
        snprintf(name, sizeof name, "seen flag '%c'", FLAGCH[i]);
        vf::require(name);
    }
}
