// C06 / C13 (second unit, TSan): concurrent activations of the printf engine.
//
// __printf takes its sink as a parameter; callers format from several threads into their own sinks without a lock
// (and from an interrupt while the main loop formats).  Each case forks a FRESH process, releases 2..4 threads
// together on a barrier, and every thread formats its list of (format, arguments) calls repeatedly into its own
// buffer and compares bytes and return value with the reference computed before the threads started (host glibc;
// the engine's isolated rendering for %p and hard floating values, see pf_nest.h).  A wrong text is reported by the
// monitor through the child's exit status; an unsynchronised access inside printf_impl.c is reported by TSan and
// picked up from the worker log by the driver (tsan:data-race:<function>).
//
// Built twice: for C06 (integer, character, string, pointer calls) and, with -DPF_MT_FLOAT, for C13 (floating calls,
// mixed with integer ones so that print_f and print_i overlap too).
#define VF_MAIN
#include "vf.h"
#include "igpf.h"
#include "pf_nest.h"
#include <pthread.h>
#include <sys/prctl.h>
#include <sys/resource.h>
#include <sys/wait.h>

#ifdef PF_MT_FLOAT
#define MT_SALT 0xC13F
static bool eligible(const pf::Call &c) { return true; }
static bool primary(const pf::Call &c) { return c.cc == pf::CC_FLT || c.conv == 'm'; }
#else
#define MT_SALT 0xC06F
static bool eligible(const pf::Call &c) { return c.cc == pf::CC_INT || c.cc == pf::CC_STR || (c.cc == pf::CC_MIX && !strchr(c.fmt, 'f')); }
static bool primary(const pf::Call &c) { return c.cc == pf::CC_INT || c.cc == pf::CC_MIX; }
#endif

struct Sink
{
    char buf[512];
    size_t n;
};
static void sink_cb(void *d, int c)
{
    Sink *s = (Sink *)d;
    if (s->n < sizeof s->buf)
        s->buf[s->n] = (char)c;
    s->n++;
    if (s->n > (1u << 16))
        _exit(64 + 32); // unbounded output: end the child at once, the parent reports it (BAD_RUNAWAY)
}
static int ig_sink_v(Sink *s, const char *fmt, ...)
{
    va_list ap;
    va_start(ap, fmt);
    int r = __printf(sink_cb, s, fmt, ap);
    va_end(ap);
    return r;
}

enum
{
    MAXCALLS = 8,
    BAD_INT = 1,
    BAD_STR = 2,
    BAD_FLT = 4,
    BAD_MIX = 8,
    BAD_RET = 16,
    BAD_RUNAWAY = 32
};
struct Job
{
    pthread_barrier_t *bar;
    int ncalls, reps;
    pf::Call calls[MAXCALLS];
    pf::Want want[MAXCALLS];
    int bad;
    int first_bad_call;
    Sink first_bad;
};
static void *worker(void *p)
{
    Job *j = (Job *)p;
    pthread_barrier_wait(j->bar);
    for (int rep = 0; rep < j->reps; rep++)
        for (int k = 0; k < j->ncalls; k++)
        {
            const pf::Call &c = j->calls[k];
            Sink s;
            s.n = 0;
            auto call = [&](auto... xs) { return ig_sink_v(&s, c.fmt, xs...); };
            int r = pf::dispatch(call, c.args.data(), (int)c.args.size());
            const pf::Want &w = j->want[k];
            int bad = 0;
            if (s.n != w.bytes.size() || s.n > sizeof s.buf || memcmp(s.buf, w.bytes.data(), s.n) != 0)
                bad |= c.cc == pf::CC_INT ? BAD_INT : c.cc == pf::CC_STR ? BAD_STR : c.cc == pf::CC_FLT ? BAD_FLT : BAD_MIX;
            if (r != w.ret)
                bad |= BAD_RET;
            if (bad && !j->bad)
            {
                j->first_bad_call = k;
                j->first_bad = s;
            }
            j->bad |= bad;
        }
    return nullptr;
}

static uint64_t mt_count() { return vf::thorough() ? 3000 : 200; }
static void mt_run(uint64_t idx)
{
    if (pf::skip_after_hangs())
    {
        VF_OK("skipped: the run already recorded repeated hangs");
        return;
    }
    vf::Rng r(vf::seed(), MT_SALT, idx);
    int nthreads = r.range(2, 4);
    const std::vector<pf::Call> &T = pf::call_table();
    std::vector<const pf::Call *> prim, all;
    for (const pf::Call &c : T)
        if (eligible(c))
        {
            all.push_back(&c);
            if (primary(c))
                prim.push_back(&c);
        }
#ifdef PF_MT_FLOAT
    vf::cls("concurrent:float");
#else
    vf::cls("concurrent:int");
#endif
    // the thread programs are fixed before the fork so that the parent can describe them
    static Job jobs[4];
    std::string descr;
    for (int t = 0; t < nthreads; t++)
    {
        Job &j = jobs[t];
        j.ncalls = r.range(2, MAXCALLS);
        j.reps = vf::thorough() ? 60 : 40;
        j.bad = 0;
        j.first_bad_call = -1;
        for (int k = 0; k < j.ncalls; k++)
        {
            // the first two calls of every thread go through the routine this property is about
            const pf::Call *c = k < 2 ? prim[r.below(prim.size())] : all[r.below(all.size())];
            j.calls[k] = r.chance(1, 2) ? pf::vary(*c, r) : *c;
            if (t < 2 && k < 3)
            {
                descr += k ? "," : (t ? " | " : "");
                descr += c->fmt;
            }
        }
    }
    if (vf::verbose())
        printf("  fresh process, %d threads released together; first threads format: %s ...\n", nthreads, descr.c_str());
    fflush(nullptr);
    int pfd[2];
    if (pipe(pfd) != 0)
        vf::fail("concurrent:harness-pipe", "pipe failed");
    pid_t pid = fork();
    if (pid == 0)
    {
        close(pfd[0]);
        // the threads run without the per-call guard of igpf.h: bound the whole child by CPU time (a formatting call
        // that does not terminate is a violation, reported by the parent) and never let it outlive the worker
        prctl(PR_SET_PDEATHSIG, SIGKILL);
        struct rlimit rl = {10, 12};
        setrlimit(RLIMIT_CPU, &rl);
        // references, single-threaded
        for (int t = 0; t < nthreads; t++)
            for (int k = 0; k < jobs[t].ncalls; k++)
            {
                const pf::Call &c = jobs[t].calls[k];
                pf::Result iso = pf::run_igris(c.fmt, c.args.data(), (int)c.args.size());
                jobs[t].want[k] = pf::want_of(c, iso);
            }
        pthread_barrier_t bar;
        pthread_barrier_init(&bar, nullptr, (unsigned)nthreads);
        pthread_t th[4];
        for (int t = 0; t < nthreads; t++)
        {
            jobs[t].bar = &bar;
            pthread_create(&th[t], nullptr, worker, &jobs[t]);
        }
        int bad = 0;
        for (int t = 0; t < nthreads; t++)
        {
            pthread_join(th[t], nullptr);
            if (jobs[t].bad && !bad)
            {
                // witness for the parent: format, got, expected
                const Job &j = jobs[t];
                const pf::Call &c = j.calls[j.first_bad_call];
                char msg[900];
                size_t n = j.first_bad.n < sizeof j.first_bad.buf ? j.first_bad.n : sizeof j.first_bad.buf;
                int m = snprintf(msg, sizeof msg, "thread %d: format=\"%s\" args=[%s] got \"%s\" (%zu chars) expected \"%s\" (ret %d)", t, c.fmt,
                                 pf::args_text(c.args.data(), (int)c.args.size()).c_str(), vf::esc(j.first_bad.buf, n).c_str(), j.first_bad.n,
                                 vf::esc(j.want[j.first_bad_call].bytes.data(), j.want[j.first_bad_call].bytes.size()).c_str(), j.want[j.first_bad_call].ret);
                if (m > 0)
                    (void)!write(pfd[1], msg, (size_t)(m < (int)sizeof msg ? m : (int)sizeof msg - 1));
            }
            bad |= jobs[t].bad;
        }
        fflush(nullptr);
        _exit(bad ? 64 + (bad & 63) : 0);
    }
    close(pfd[1]);
    char msg[1000];
    ssize_t got = read(pfd[0], msg, sizeof msg - 1);
    msg[got > 0 ? got : 0] = 0;
    close(pfd[0]);
    int st = 0;
    waitpid(pid, &st, 0);
    if (WIFEXITED(st) && WEXITSTATUS(st) >= 64)
    {
        int bad = WEXITSTATUS(st) - 64;
        static const char *names[6] = {"integer-text", "string-text", "float-text", "multi-directive-text", "return-value", "runaway-output"};
        for (int b = 0; b < 6; b++)
            if (bad & (1 << b))
            {
                char key[100];
                snprintf(key, sizeof key, "concurrent:%s:!=reference", names[b]);
                vf::fail(key, "%d threads formatting into their own sinks in a fresh process (mask %#x): %s", nthreads, bad, msg);
            }
    }
    if (WIFSIGNALED(st) && (WTERMSIG(st) == SIGXCPU || WTERMSIG(st) == SIGKILL))
    {
        if (pf::hang_shared())
            pf::hang_shared()->hangs.fetch_add(3); // a few of these are enough; the rest of the run is skipped
    }
    if (WIFSIGNALED(st) && (WTERMSIG(st) == SIGXCPU || WTERMSIG(st) == SIGKILL))
        vf::fail("concurrent:hang", "%d threads formatting concurrently did not finish within 10 s of CPU time (a call normally takes microseconds); first threads format: %s",
                 nthreads, descr.c_str());
    if (!(WIFEXITED(st) && WEXITSTATUS(st) == 0))
        vf::fail("concurrent:child-died", "child status %#x; first threads format: %s", st, descr.c_str());
    VF_OK("2..4 threads format concurrently into their own sinks: every text and return value == reference (TSan watching)");
    vf::count_case(vf::mix(idx, vf::seed()), true);
    vf::state(vf::hash_bytes(descr.data(), descr.size()));
    if (vf::want_sample())
        vf::sample("concurrent: fresh process, %d threads x %d repetitions; %s ...", nthreads, jobs[0].reps, descr.c_str());
}
VF_SUITE(concurrent, mt_count, mt_run)

extern "C" void vf_setup()
{
    pf::setup();
    vf::require("2..4 threads format concurrently into their own sinks: every text and return value == reference (TSan watching)");
}
