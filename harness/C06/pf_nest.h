// pf_nest.h — overlapping activations of igris' printf engine (shared by C06 and C13, asan and tsan units).
//
// "The characters handed to the output callback are exactly those ISO C printf produces" has to hold for every
// activation, also when two of them overlap in time.  Two ways to overlap are driven here:
//   (a) re-entrancy: the output callback of an outer call, at its k-th invocation, formats something through the
//       engine into its own sink (a logging sink that timestamps, a callback that prints a counter);
//   (b) concurrency: several threads format into their own sinks (printf_mt.cpp, TSan).
// Any engine state with static storage duration (scratch buffers, cursors, counters, the flag word) is then shared
// between the activations.
//
// Reference for a call: host glibc on the same format and arguments; for %p the engine's own isolated rendering
// (ISO leaves the text open; its shape is checked by C06's main suites); for floating directives glibc when the
// isolated rendering agrees with it (the table uses short, tie-free values), otherwise the isolated rendering
// (C13's main suites judge that one).  In all cases overlapping must not change a single byte or the return value.
#pragma once
#include "igpf.h"
#include <vector>

namespace pf
{
    enum CallClass
    {
        CC_INT,  // d i u o x X p : print_i
        CC_STR,  // c s           : print_s / print_sn
        CC_FLT,  // f e g         : print_f
        CC_MIX   // several directives
    };
    struct Call
    {
        const char *fmt;
        std::vector<Arg> args;
        CallClass cc;
        char conv;    // conversion letter used in keys ('m' for several directives)
        int rnd;      // index of an integer argument that may be replaced by a random value of the same width, or -1
        bool wide;    // that argument is 64 bits wide
        bool pointer; // contains %p: no glibc reference
    };

    inline const std::vector<Call> &call_table()
    {
        static std::vector<Call> T;
        if (!T.empty())
            return T;
        static int some_object;
        auto I = [](uint64_t v) { return Arg::mk_i(v); };
        auto D = [](double v) { return Arg::mk_d(v); };
        auto S = [](const char *s) { return Arg::mk_p(s); };
        // integer conversions
        T.push_back({"%d", {I(1234567890)}, CC_INT, 'd', 0, false, false});
        T.push_back({"%12d|", {I((uint32_t)-4321)}, CC_INT, 'd', 0, false, false});
        T.push_back({"%-12d|", {I(987654)}, CC_INT, 'd', 0, false, false});
        T.push_back({"%+.9d", {I(65537)}, CC_INT, 'd', 0, false, false});
        T.push_back({"%020lld", {I((uint64_t)-1234567890123ll)}, CC_INT, 'd', 0, true, false});
        T.push_back({"%*.*i", {I(14), I(7), I(31337)}, CC_INT, 'i', 2, false, false});
        T.push_back({"%u", {I(4000000000u)}, CC_INT, 'u', 0, false, false});
        T.push_back({"%x", {I(0xbeef01)}, CC_INT, 'x', 0, false, false});
        T.push_back({"%#14x|", {I(0xdeadbeef)}, CC_INT, 'x', 0, false, false});
        T.push_back({"%.12llX", {I(0x123456789abcull)}, CC_INT, 'X', 0, true, false});
        T.push_back({"%o", {I(0777123)}, CC_INT, 'o', 0, false, false});
        T.push_back({"%-#16lo|", {I(0123456701234567ull)}, CC_INT, 'o', 0, true, false});
        T.push_back({"%p", {Arg::mk_p(&some_object)}, CC_INT, 'p', -1, false, true});
        T.push_back({"%24p|", {I(0x7fabcdef1230ull)}, CC_INT, 'p', -1, false, true});
        // characters and strings
        T.push_back({"%c", {I('Q')}, CC_STR, 'c', -1, false, false});
        T.push_back({"%-5c|%5c", {I('a'), I('z')}, CC_STR, 'c', -1, false, false});
        T.push_back({"%s", {S("hello, world")}, CC_STR, 's', -1, false, false});
        T.push_back({"%20s|", {S("right aligned")}, CC_STR, 's', -1, false, false});
        T.push_back({"%-20.9s|", {S("left aligned and cut")}, CC_STR, 's', -1, false, false});
        // floating conversions (short, tie-free values)
        T.push_back({"%f", {D(12345.678)}, CC_FLT, 'f', -1, false, false});
        T.push_back({"%.2f", {D(3.14159)}, CC_FLT, 'f', -1, false, false});
        T.push_back({"%014.3f", {D(-2.5625)}, CC_FLT, 'f', -1, false, false});
        T.push_back({"%-16.4f|", {D(1000000.25)}, CC_FLT, 'f', -1, false, false});
        T.push_back({"%e", {D(6.02214e23)}, CC_FLT, 'e', -1, false, false});
        T.push_back({"%+14.3E", {D(0.000123456)}, CC_FLT, 'e', -1, false, false});
        T.push_back({"%g", {D(0.0001234)}, CC_FLT, 'g', -1, false, false});
        T.push_back({"%-14.8g|", {D(12345678.9)}, CC_FLT, 'g', -1, false, false});
        T.push_back({"%#G", {D(1e10)}, CC_FLT, 'g', -1, false, false});
        // several directives in one call
        T.push_back({"[%d|%#x|%5d]", {I((uint32_t)-1234567890), I(0xbeef01), I(4321)}, CC_MIX, 'm', 0, false, false});
        T.push_back({"t=%8.3f n=%-6d s=%s", {D(17.125), I(42), S("ok")}, CC_MIX, 'm', 1, false, false});
        return T;
    }

    // a variant of a table entry with a seeded random value in its randomisable integer argument
    inline Call vary(const Call &c, vf::Rng &r)
    {
        Call v = c;
        if (c.rnd >= 0)
        {
            int bits = c.wide ? 64 : 32;
            uint64_t x = r.next() >> (64 - (int)r.range(1, bits));
            if (r.chance(1, 3))
                x = (uint64_t)(-(int64_t)x);
            v.args[(size_t)c.rnd] = Arg::mk_i(c.wide ? x : (uint64_t)(uint32_t)x);
        }
        return v;
    }

    struct Want
    {
        std::string bytes;
        int ret;
        bool from_glibc;
    };
    // reference of one call (see the head of this file); `iso` is the engine's isolated rendering
    inline Want want_of(const Call &c, const Result &iso)
    {
        Want w;
        if (!c.pointer)
        {
            Result ref = run_ref(c.fmt, c.args.data(), (int)c.args.size());
            bool has_float = c.cc == CC_FLT || strchr(c.fmt, 'f') != nullptr;
            if (!has_float || (ref.bytes == iso.bytes && ref.ret == iso.ret))
            {
                w.bytes = ref.bytes;
                w.ret = ref.ret;
                w.from_glibc = true;
                return w;
            }
        }
        w.bytes = iso.bytes;
        w.ret = iso.ret;
        w.from_glibc = false;
        return w;
    }

    // ------------------------------------------------------------ (a) re-entrancy through the output callback
    struct Nest
    {
        Cap *outer;
        uint64_t k; // the inner call runs inside the k-th invocation (0-based) of the outer callback
        const char *ifmt;
        const Arg *ia;
        int in;
        std::string ibytes;
        uint64_t icalls = 0;
        int iret = 0, fired = 0;
        bool ibad = false;
    };
    inline void nest_inner_cb(void *d, int c)
    {
        Nest *n = (Nest *)d;
        n->icalls++;
        if (c < -128 || c > 255)
            n->ibad = true;
        if (n->icalls > (uint64_t)CAP_LIMIT)
            longjmp(n->outer->runaway, 2); // unbounded inner output: leave both activations (C frames only in between)
        n->ibytes.push_back((char)c);
    }
    inline int ig_inner_v(Nest *n, const char *fmt, ...)
    {
        va_list ap;
        va_start(ap, fmt);
        int r = __printf(nest_inner_cb, n, fmt, ap);
        va_end(ap);
        return r;
    }
    inline void nest_cb(void *d, int c)
    {
        Nest *n = (Nest *)d;
        if (n->outer->calls == n->k)
        {
            n->fired++;
            auto call = [&](auto... xs) { return ig_inner_v(n, n->ifmt, xs...); };
            n->iret = dispatch(call, n->ia, n->in);
        }
        cap_cb(n->outer, c);
    }
    inline int ig_nest_v(Nest *n, const char *fmt, ...)
    {
        va_list ap;
        va_start(ap, fmt);
        int r = __printf(nest_cb, n, fmt, ap);
        va_end(ap);
        return r;
    }
    struct NestResult
    {
        Result outer, inner;
        int fired = 0;
    };
    inline NestResult run_nested(const Call &o, const Call &i, uint64_t k)
    {
        Cap *cap = new Cap;
        Nest *n = new Nest;
        n->outer = cap;
        n->k = k;
        n->ifmt = i.fmt;
        n->ia = i.args.data();
        n->in = (int)i.args.size();
        NestResult r;
        volatile int ret = 0;
        arm(HANG_CPU_SECONDS);
        if (setjmp(cap->runaway) == 0)
        {
            auto call = [&](auto... xs) { return ig_nest_v(n, o.fmt, xs...); };
            ret = dispatch(call, o.args.data(), (int)o.args.size());
        }
        else
            r.outer.runaway = true;
        arm(0);
        r.outer.ret = ret;
        r.outer.bad_char = cap->bad_char;
        r.outer.bytes.swap(cap->bytes);
        r.inner.ret = n->iret;
        r.inner.bad_char = n->ibad;
        r.inner.runaway = n->icalls > (uint64_t)CAP_LIMIT;
        r.inner.bytes.swap(n->ibytes);
        r.fired = n->fired;
        delete n;
        delete cap;
        return r;
    }

    inline const char *class_name(const Call &c)
    {
        return c.conv == 'm' ? "multi" : c.cc == CC_INT ? "int" : c.cc == CC_STR ? "str" : "float";
    }

    // one (outer, inner) pair: the inner call is injected at every position of the outer output.
    // Returns the number of nested runs evaluated; failures are reported with fail_nothrow.
    inline unsigned reentrancy_pair(const Call &o, const Call &i)
    {
        char key[vf::KEY_LEN], cls[120];
        snprintf(cls, sizeof cls, "reentrant:%s-inside-%s", class_name(i), class_name(o));
        vf::cls(cls);
        if (vf::verbose())
            printf("  outer format=\"%s\" args=[%s]  inner format=\"%s\" args=[%s]\n", o.fmt, args_text(o.args.data(), (int)o.args.size()).c_str(), i.fmt,
                   args_text(i.args.data(), (int)i.args.size()).c_str());
        Result iso_o = run_igris(o.fmt, o.args.data(), (int)o.args.size());
        Result iso_i = run_igris(i.fmt, i.args.data(), (int)i.args.size());
        Want wo = want_of(o, iso_o), wi = want_of(i, iso_i);
        if (wo.from_glibc && wi.from_glibc)
            VF_OK("re-entrancy: reference of both calls is host glibc");
        else
            VF_OK("re-entrancy: reference of a %p / hard floating call is its isolated rendering");
        unsigned runs = 0;
        size_t len = wo.bytes.size();
        for (size_t k = 0; k < len; k++)
        {
            if (len > 64 && k % 3 != 0 && k + 8 < len)
                continue;
            NestResult r = run_nested(o, i, k);
            runs++;
            const char *what = nullptr;
            if (r.outer.runaway || r.inner.runaway)
                what = "runaway-output";
            else if (r.fired != 1)
                what = "inner-not-run-once";
            else if (r.outer.bytes != wo.bytes)
                what = "outer-bytes";
            else if (r.outer.ret != wo.ret)
                what = "outer-return";
            else if (r.inner.bytes != wi.bytes)
                what = "inner-bytes";
            else if (r.inner.ret != wi.ret)
                what = "inner-return";
            else if (r.outer.bad_char || r.inner.bad_char)
                what = "callback-char";
            if (what)
            {
                // keyed by the routine classes involved (int: d i u o x X p, str: c s, float: f e g, multi)
                snprintf(key, sizeof key, "reentrant:%s:%s-inside-%s", what, class_name(i), class_name(o));
                vf::fail_nothrow(key,
                                 "outer format=\"%s\" args=[%s]; inside its callback invocation #%zu the callback formats format=\"%s\" args=[%s] into its own sink. "
                                 "outer stream=\"%s\" (ret %d) expected \"%s\" (ret %d); inner stream=\"%s\" (ret %d) expected \"%s\" (ret %d)",
                                 o.fmt, args_text(o.args.data(), (int)o.args.size()).c_str(), k, i.fmt, args_text(i.args.data(), (int)i.args.size()).c_str(),
                                 vf::esc(r.outer.bytes.data(), r.outer.bytes.size()).c_str(), r.outer.ret, vf::esc(wo.bytes.data(), wo.bytes.size()).c_str(), wo.ret,
                                 vf::esc(r.inner.bytes.data(), r.inner.bytes.size()).c_str(), r.inner.ret, vf::esc(wi.bytes.data(), wi.bytes.size()).c_str(), wi.ret);
                return runs; // one report per pair
            }
            VF_OK("re-entrancy: outer and inner stream and return value unchanged by the overlap");
        }
        uint64_t h = vf::hash_bytes(o.fmt, strlen(o.fmt), vf::hash_bytes(i.fmt, strlen(i.fmt)));
        for (const Arg &a : o.args)
            h = vf::mix(h, a.k == Arg::I ? a.i : (uint64_t)(a.d * 1e6));
        for (const Arg &a : i.args)
            h = vf::mix(h, a.k == Arg::I ? a.i : (uint64_t)(a.d * 1e6));
        vf::count_case(h, true);
        vf::state(vf::mix((uint64_t)o.conv << 8 | (uint64_t)i.conv, 0x4e57));
        return runs;
    }

    // suite body shared by C06 and C13: case idx = (outer, inner) pair of the table; `want_float` selects the pairs
    // a property is responsible for (C06: at least one non-floating call, C13: at least one floating call)
    inline uint64_t reentrancy_count() { return call_table().size() * call_table().size(); }
    inline void reentrancy_run(uint64_t idx, bool float_property, uint64_t salt)
    {
        const std::vector<Call> &T = call_table();
        const Call &o = T[idx / T.size()], &i = T[idx % T.size()];
        bool of = o.cc == CC_FLT || o.conv == 'm', inf = i.cc == CC_FLT || i.conv == 'm';
        bool mine = float_property ? (of || inf) : !(o.cc == CC_FLT && i.cc == CC_FLT);
        if (!mine)
            return;
        vf::Rng r(vf::seed(), salt, idx);
        unsigned runs = reentrancy_pair(o, i);
        int variants = vf::thorough() ? 6 : 1;
        for (int v = 0; v < variants; v++)
            if (o.rnd >= 0 || i.rnd >= 0)
                runs += reentrancy_pair(vary(o, r), vary(i, r));
        if (vf::want_sample() && idx % 37 == 3)
            vf::sample("re-entrancy: \"%s\" formatted inside each of the callback invocations of \"%s\" (%u nested runs)", i.fmt, o.fmt, runs);
    }
} // namespace pf
