// igpf.h — calling igris' printf engine and the host reference with one argument list (shared by C06 and C13).
//
// igris side : __printf(callback, data, format, va_list)   (igris/util/printf_impl.c)
//              igc_vsprintf / igc_vfdprintf                (compat/libc/stdio, symbols renamed by the check driver)
// host side  : glibc vsnprintf, called directly.
//
// Argument lists are built at run time (Arg = one variadic slot).  x86-64 SysV passes every integer-class
// variadic argument (int, long, long long, size_t, pointers ...) in one 8-byte slot and va_arg(int) reads its
// low half, so integer-class values are handed over as one 64-bit value extended according to their real type,
// doubles as double.  Both engines receive the very same call.
#pragma once
#include "vf.h"
#include <csetjmp>
#include <new>
#include <cstdarg>
#include <cstdint>
#include <cstdio>
#include <cstring>
#include <string>

extern "C" int __printf(void (*printchar_handler)(void *d, int c), void *printchar_data, const char *format, va_list args);

// gcc 12's ASan interceptor for the host printf family validates a "%.Ns" argument by reading one byte beyond
// the precision (false positive on exactly-sized unterminated blocks, which ISO C allows).  The host call is the
// trusted reference here, so its argument vetting is switched off; igris' own reads stay fully instrumented.
#ifdef VF_MAIN
extern "C" __attribute__((used, visibility("default"))) const char *__asan_default_options() { return "check_printf=0"; }
#endif

namespace pf
{
    struct Arg
    {
        enum Kind
        {
            I,
            D
        } k;
        uint64_t i;
        double d;
        static Arg mk_i(uint64_t v) { return Arg{I, v, 0.0}; }
        static Arg mk_d(double v) { return Arg{D, 0, v}; }
        static Arg mk_p(const void *p) { return Arg{I, (uint64_t)(uintptr_t)p, 0.0}; }
    };
    enum
    {
        MAXARGS = 7,
        CAP_LIMIT = 1 << 16
    };

    // ------------------------------------------------------------ capture of the callback stream
    struct Cap
    {
        std::string bytes;
        uint64_t calls = 0;
        bool bad_char = false; // callback received an int outside what a char can be
        jmp_buf runaway;
    };
    inline void cap_cb(void *d, int c)
    {
        Cap *cp = (Cap *)d;
        cp->calls++;
        if (c < -128 || c > 255)
            cp->bad_char = true;
        if (cp->calls > CAP_LIMIT)
            longjmp(cp->runaway, 1); // unbounded output: leave the engine (C frames only in between)
        cp->bytes.push_back((char)c);
    }
    inline int ig_v(Cap *cap, const char *fmt, ...)
    {
        va_list ap;
        va_start(ap, fmt);
        int r = __printf(cap_cb, cap, fmt, ap);
        va_end(ap);
        return r;
    }
    inline int ref_v(char *buf, size_t sz, const char *fmt, ...)
    {
        va_list ap;
        va_start(ap, fmt);
        int r = vsnprintf(buf, sz, fmt, ap);
        va_end(ap);
        return r;
    }
    // generic va_list consumer: fn(void *ctx, const char *fmt, va_list)
    typedef int (*VaFn)(void *ctx, const char *fmt, va_list ap);
    inline int any_v(VaFn fn, void *ctx, const char *fmt, ...)
    {
        va_list ap;
        va_start(ap, fmt);
        int r = fn(ctx, fmt, ap);
        va_end(ap);
        return r;
    }

    template <class F, class... A> static int dispatch(F &f, const Arg *a, int n, A... done)
    {
        if (n == 0)
            return f(done...);
        if constexpr (sizeof...(A) < MAXARGS)
        {
            if (a->k == Arg::I)
                return dispatch(f, a + 1, n - 1, done..., (unsigned long long)a->i);
            return dispatch(f, a + 1, n - 1, done..., a->d);
        }
        else
        {
            fprintf(stderr, "pf: too many arguments\n");
            abort();
        }
    }

    // ------------------------------------------------------------ CPU-time bound on one engine call
    // "Formatting always terminates" is part of C06/C13.  The framework's wall-clock watchdog (5 s in the pool, then a
    // sequential re-run with 10 s) decides it, but a defect that hangs a whole class of directives would keep it busy
    // for hours, and wall-clock limits are fragile on a loaded machine.  Each engine call therefore also runs under a
    // CPU-time limit of the worker process (ITIMER_PROF, immune to machine load; a call normally needs microseconds).
    // Expiry records the failure under the framework's own key format and ends the worker with the framework's
    // "failure already recorded" exit status, so the runner restarts a worker and goes on.  After HANG_SKIP recorded
    // hangs the remaining evaluations of the run are skipped (the run is a violation anyway).
    enum
    {
        HANG_CPU_SECONDS = 3,
        HANG_SKIP = 12
    };
    struct HangShared
    {
        std::atomic<int> hangs;
    };
    inline HangShared *&hang_shared()
    {
        static HangShared *p = nullptr;
        return p;
    }
    inline void on_cpu_limit(int)
    {
        using namespace vf;
        Global &G = g();
        const char *c = G.sh->slots[G.worker].cls;
        char key[KEY_LEN], det[DETAIL_LEN];
        snprintf(key, sizeof key, "hang:%s%s%s", G.suites[G.cur_suite].name, c[0] ? "@" : "", c);
        snprintf(det, sizeof det, "one call of the engine used more than %d s of CPU time; cls=%s", (int)HANG_CPU_SECONDS, c);
        if (G.verbose)
            printf("HANG key=%s\n  %s\n", key, det);
        record_failure("hang", G.cur_suite, G.cur_idx, key, det);
        if (hang_shared())
            hang_shared()->hangs.fetch_add(1);
        flush_local();
        _exit(77);
    }
    // call once from vf_setup() (parent, before the workers are forked)
    inline void setup()
    {
        void *m = mmap(nullptr, 4096, PROT_READ | PROT_WRITE, MAP_SHARED | MAP_ANONYMOUS, -1, 0);
        if (m != MAP_FAILED)
            hang_shared() = new (m) HangShared{};
        struct sigaction sa;
        memset(&sa, 0, sizeof sa);
        sa.sa_handler = on_cpu_limit;
        sigaction(SIGPROF, &sa, nullptr);
    }
    inline bool skip_after_hangs() { return hang_shared() && hang_shared()->hangs.load() >= HANG_SKIP; }
    inline void arm(int seconds)
    {
        struct itimerval it;
        memset(&it, 0, sizeof it);
        it.it_value.tv_sec = seconds;
        setitimer(ITIMER_PROF, &it, nullptr);
    }

    struct Result
    {
        std::string bytes;
        int ret = 0;
        bool runaway = false;
        bool bad_char = false;
    };
    // run igris' engine through its callback interface
    inline Result run_igris(const char *fmt, const Arg *a, int n)
    {
        // the Cap lives on the heap so that nothing with a destructor sits between setjmp and longjmp
        Cap *cap = new Cap;
        Result r;
        volatile int ret = 0;
        arm(HANG_CPU_SECONDS);
        if (setjmp(cap->runaway) == 0)
        {
            auto call = [&](auto... xs) { return ig_v(cap, fmt, xs...); };
            ret = dispatch(call, a, n);
        }
        else
            r.runaway = true;
        arm(0);
        r.ret = ret;
        r.bad_char = cap->bad_char;
        r.bytes.swap(cap->bytes);
        delete cap;
        return r;
    }
    inline Result run_ref(const char *fmt, const Arg *a, int n)
    {
        static char buf[8192];
        Result r;
        auto call = [&](auto... xs) { return ref_v(buf, sizeof buf, fmt, xs...); };
        r.ret = dispatch(call, a, n);
        if (r.ret < 0 || (size_t)r.ret >= sizeof buf)
        {
            fprintf(stderr, "pf: reference output does not fit (%d) for format %s\n", r.ret, fmt);
            abort();
        }
        r.bytes.assign(buf, (size_t)r.ret);
        return r;
    }
    inline int run_any(VaFn fn, void *ctx, const char *fmt, const Arg *a, int n)
    {
        auto call = [&](auto... xs) { return any_v(fn, ctx, fmt, xs...); };
        return dispatch(call, a, n);
    }

    inline std::string args_text(const Arg *a, int n)
    {
        std::string s;
        char b[64];
        for (int i = 0; i < n; i++)
        {
            if (a[i].k == Arg::I)
                snprintf(b, sizeof b, "%si:0x%llx", i ? " " : "", (unsigned long long)a[i].i);
            else
            {
                uint64_t u;
                memcpy(&u, &a[i].d, 8);
                snprintf(b, sizeof b, "%sd:0x%016llx(%.17g)", i ? " " : "", (unsigned long long)u, a[i].d);
            }
            s += b;
        }
        return s;
    }
} // namespace pf
