// C08 (tsan unit): every mem*/str* routine except strtok (documented static state) is a pure function of its arguments
// (ISO C 7.1.4p5). 2..4 threads, released together in a fresh process, run every routine on their OWN buffers; every
// result is compared with a reference computed before (host glibc / trivial loops). Hidden shared state (a static
// result pointer, a static scratch buffer, a cached length) shows as a TSan data race and/or a wrong value.
#define VF_MAIN
#include "vf.h"
#include "mt.h"
#include <string>
#include <strings.h>
#include <vector>
using std::string;
typedef unsigned char uc;
extern "C"
{
    void *igc_memcpy(void *, const void *, size_t);
    void *igc_memmove(void *, const void *, size_t);
    void *igc_memset(void *, int, size_t);
    int igc_memcmp(const void *, const void *, size_t);
    void *igc_memchr(const void *, int, size_t);
    void *igc_memrchr(const void *, int, size_t);
    size_t igc_strlen(const char *);
    size_t igc_strnlen(const char *, size_t);
    char *igc_strcpy(char *, const char *);
    char *igc_strncpy(char *, const char *, size_t);
    size_t igc_strlcpy(char *, const char *, size_t);
    char *igc_strcat(char *, const char *);
    char *igc_strncat(char *, const char *, size_t);
    int igc_strcmp(const char *, const char *);
    int igc_strncmp(const char *, const char *, size_t);
    int igc_strcasecmp(const char *, const char *);
    int igc_strncasecmp(const char *, const char *, size_t);
    char *igc_strchr(const char *, int);
    char *igc_strrchr(const char *, int);
    char *igc_strchrnul(const char *, int);
    char *igc_strstr(const char *, const char *);
    char *igc_strcasestr(const char *, const char *);
    size_t igc_strspn(const char *, const char *);
    size_t igc_strcspn(const char *, const char *);
    char *igc_strpbrk(const char *, const char *);
    char *igc_strtok_r(char *, const char *, char **);
    char *igc_strdup(const char *);
    char *igc_strndup(const char *, size_t);
    char *igc_strlwr(char *);
    char *igc_strupr(char *);
}
static int sgn(long x) { return (x > 0) - (x < 0); }
static long off(const void *p, const void *base) { return p ? (long)((const char *)p - (const char *)base) : -1; }

enum
{
    G_MEM = 1,   // memcpy memmove memset memcmp memchr memrchr
    G_COPY = 2,  // strcpy strncpy strlcpy strcat strncat
    G_CMP = 4,   // strcmp strncmp strcasecmp strncasecmp
    G_FIND = 8,  // strchr strrchr strchrnul strstr strcasestr strpbrk strspn strcspn
    G_TOK = 16,  // strtok_r
    G_MISC = 32  // strlen strnlen strdup strndup strlwr strupr
};
struct Job
{
    string a, b, nd, set, tok, delim; // a: main string, b: relative of a, nd: needle, set: char set
    int c;
    size_t n, mvo; // bound; memmove offset inside a
    int order;
    // expectations
    int e_memcmp, e_strcmp, e_strncmp, e_casecmp, e_ncasecmp;
    long e_memchr, e_memrchr, e_chr, e_rchr, e_chrnul, e_str, e_casestr, e_pbrk;
    size_t e_spn, e_cspn, e_nlen;
    string e_move, e_ncpy, e_lcpy, e_cat, e_ncat, e_lwr, e_upr, e_ndup, e_tokbuf;
    std::vector<long> e_toks;
};
static string fold(const string &s, bool up)
{
    string t = s;
    for (char &ch : t)
        if (up ? (ch >= 'a' && ch <= 'z') : (ch >= 'A' && ch <= 'Z'))
            ch = (char)(up ? ch - 32 : ch + 32);
    return t;
}
static void expectations(Job &j)
{
    const char *a = j.a.c_str(), *b = j.b.c_str();
    size_t la = j.a.size(), m = std::min(la, j.b.size());
    j.e_memcmp = sgn(memcmp(a, b, m));
    j.e_strcmp = sgn(strcmp(a, b)), j.e_strncmp = sgn(strncmp(a, b, j.n));
    j.e_casecmp = sgn(strcasecmp(a, b)), j.e_ncasecmp = sgn(strncasecmp(a, b, j.n));
    j.e_memchr = off(memchr(a, j.c, la), a), j.e_memrchr = off(memrchr(a, j.c, la), a);
    j.e_chr = off(strchr(a, j.c), a), j.e_rchr = off(strrchr(a, j.c), a), j.e_chrnul = off(strchrnul(a, j.c), a);
    j.e_str = off(strstr(a, j.nd.c_str()), a), j.e_casestr = off(strcasestr(a, j.nd.c_str()), a);
    j.e_pbrk = off(strpbrk(a, j.set.c_str()), a);
    j.e_spn = strspn(a, j.set.c_str()), j.e_cspn = strcspn(a, j.set.c_str());
    j.e_nlen = strnlen(a, j.n);
    // memmove inside one buffer: a[mvo..] moved to the front and the front moved to mvo
    j.e_move = j.a;
    if (la)
        memmove(&j.e_move[j.mvo], &j.e_move[0], la - j.mvo);
    j.e_ncpy.assign(j.n, '\0');
    for (size_t i = 0; i < j.n && i < la; i++)
        j.e_ncpy[i] = j.a[i];
    j.e_lcpy = j.n ? j.a.substr(0, std::min(la, j.n - 1)) : "";
    j.e_cat = j.b + j.a;
    j.e_ncat = j.b + j.a.substr(0, std::min(la, j.n));
    j.e_lwr = fold(j.a, false), j.e_upr = fold(j.a, true);
    j.e_ndup = j.a.substr(0, std::min(la, j.n));
    // token stream (glibc strtok_r on a copy)
    string t(j.tok.c_str(), j.tok.size() + 1);
    char *save = nullptr;
    for (char *p = strtok_r(&t[0], j.delim.c_str(), &save); p; p = strtok_r(nullptr, j.delim.c_str(), &save))
        j.e_toks.push_back(p - &t[0]);
    j.e_tokbuf = t;
}
#define BAD(g, cond)   \
    do                 \
    {                  \
        if (cond)      \
            bad |= (g); \
    } while (0)
static unsigned work(const Job &j)
{
    unsigned bad = 0;
    const char *a = j.a.c_str(), *b = j.b.c_str();
    size_t la = j.a.size(), lb = j.b.size(), m = std::min(la, lb);
    std::vector<char> d(la + lb + j.n + 8);
    for (int rep = 0; rep < 8; rep++)
        for (int k = 0; k < 6; k++)
            switch ((k + j.order) % 6)
            {
            case 0: // mem*
                BAD(G_MEM, igc_memcpy(d.data(), a, la + 1) != d.data() || memcmp(d.data(), a, la + 1));
                if (la)
                {
                    igc_memmove(d.data() + j.mvo, d.data(), la - j.mvo);
                    BAD(G_MEM, memcmp(d.data(), j.e_move.data(), la));
                }
                BAD(G_MEM, igc_memset(d.data(), j.c, la + 3) != d.data() || (uc)d[0] != (uc)j.c || (uc)d[la + 2] != (uc)j.c);
                BAD(G_MEM, sgn(igc_memcmp(a, b, m)) != j.e_memcmp);
                BAD(G_MEM, off(igc_memchr(a, j.c, la), a) != j.e_memchr || off(igc_memrchr(a, j.c, la), a) != j.e_memrchr);
                break;
            case 1: // copies
                BAD(G_COPY, igc_strcpy(d.data(), a) != d.data() || memcmp(d.data(), a, la + 1));
                memset(d.data(), '#', d.size());
                BAD(G_COPY, igc_strncpy(d.data(), a, j.n) != d.data() || memcmp(d.data(), j.e_ncpy.data(), j.n) || d[j.n] != '#');
                memset(d.data(), '#', d.size());
                BAD(G_COPY, igc_strlcpy(d.data(), a, j.n) != la || (j.n && strcmp(d.data(), j.e_lcpy.c_str())));
                memcpy(d.data(), b, lb + 1);
                BAD(G_COPY, igc_strcat(d.data(), a) != d.data() || strcmp(d.data(), j.e_cat.c_str()));
                memcpy(d.data(), b, lb + 1);
                BAD(G_COPY, igc_strncat(d.data(), a, j.n) != d.data() || strcmp(d.data(), j.e_ncat.c_str()));
                break;
            case 2: // comparisons
                BAD(G_CMP, sgn(igc_strcmp(a, b)) != j.e_strcmp || sgn(igc_strncmp(a, b, j.n)) != j.e_strncmp);
                BAD(G_CMP, sgn(igc_strcasecmp(a, b)) != j.e_casecmp || sgn(igc_strncasecmp(a, b, j.n)) != j.e_ncasecmp);
                break;
            case 3: // searches
                BAD(G_FIND, off(igc_strchr(a, j.c), a) != j.e_chr || off(igc_strrchr(a, j.c), a) != j.e_rchr || off(igc_strchrnul(a, j.c), a) != j.e_chrnul);
                BAD(G_FIND, off(igc_strstr(a, j.nd.c_str()), a) != j.e_str || off(igc_strcasestr(a, j.nd.c_str()), a) != j.e_casestr);
                BAD(G_FIND, off(igc_strpbrk(a, j.set.c_str()), a) != j.e_pbrk || igc_strspn(a, j.set.c_str()) != j.e_spn || igc_strcspn(a, j.set.c_str()) != j.e_cspn);
                break;
            case 4: // strtok_r over the whole stream
            {
                std::vector<char> t(j.tok.c_str(), j.tok.c_str() + j.tok.size() + 1);
                char *save = nullptr;
                size_t i = 0;
                for (char *p = igc_strtok_r(t.data(), j.delim.c_str(), &save); p; p = igc_strtok_r(nullptr, j.delim.c_str(), &save), i++)
                    BAD(G_TOK, i >= j.e_toks.size() || p - t.data() != j.e_toks[i]);
                BAD(G_TOK, i != j.e_toks.size() || memcmp(t.data(), j.e_tokbuf.data(), t.size()));
                break;
            }
            default: // strlen strnlen strdup strndup strlwr strupr
            {
                BAD(G_MISC, igc_strlen(a) != la || igc_strnlen(a, j.n) != j.e_nlen);
                char *p = igc_strdup(a), *q = igc_strndup(a, j.n);
                BAD(G_MISC, !p || !q || strcmp(p, a) || strcmp(q, j.e_ndup.c_str()));
                free(p), free(q);
                memcpy(d.data(), a, la + 1);
                BAD(G_MISC, igc_strlwr(d.data()) != d.data() || strcmp(d.data(), j.e_lwr.c_str()));
                memcpy(d.data(), a, la + 1);
                BAD(G_MISC, igc_strupr(d.data()) != d.data() || strcmp(d.data(), j.e_upr.c_str()));
                break;
            }
            }
    return bad;
}
static string gen(vf::Rng &r, size_t n, int mode)
{
    string s(n, 'x');
    for (char &ch : s)
    {
        uc c = mode == 0 ? (uc)r.next() : mode == 1 ? (uc)("AaBbZz@[`{\xC1\xE1"[r.below(12)]) : (uc)("ab,; \x80"[r.below(6)]);
        ch = (char)(c ? c : 1);
    }
    return s;
}
static uint64_t mt_count() { return vf::thorough() ? 3000 : 120; }
static void mt_case(uint64_t idx)
{
    vf::Rng r(vf::seed(), 0xC08F, idx);
    int nthreads = r.range(2, 4);
    std::vector<Job> jobs(nthreads);
    for (Job &j : jobs)
    {
        size_t L = r.below(41);
        j.a = gen(r, L, (int)r.below(3));
        j.b = j.a;
        if (r.chance(3, 4) && L)
        {
            size_t i = r.below(L);
            j.b[i] = r.chance(1, 2) ? (char)(j.b[i] ^ 0x20) : (char)(1 + r.below(255));
            if (!j.b[i])
                j.b[i] = 1; // ' ' ^ 0x20
            if (r.chance(1, 3))
                j.b.resize(i);
        }
        j.nd = L > 2 && r.chance(2, 3) ? j.a.substr(r.below(L - 1), 1 + r.below(3)) : gen(r, 1 + r.below(3), 2);
        j.set = gen(r, r.below(4), 2) + (L && r.chance(1, 2) ? string(1, j.a[r.below(L)]) : string());
        j.tok = gen(r, r.below(30), 2);
        j.delim = r.chance(1, 2) ? ", " : gen(r, 1 + r.below(2), 2);
        j.c = L && r.chance(1, 2) ? (int)(uc)j.a[r.below(L)] : r.range(-128, 255);
        j.n = r.chance(1, 8) ? (r.chance(1, 2) ? 0 : L + 50) : L + (size_t)r.range(0, 4) - (L >= 2 ? (size_t)r.range(0, 2) : 0);
        j.mvo = L ? r.below(L) : 0;
        j.order = (int)r.below(6);
        expectations(j);
    }
    vf::cls("concurrent-own-buffers");
    if (vf::verbose())
        printf("  fresh process, %d threads released together, 30 routines each, 8 rounds; thread 0: a=\"%s\" c=%d n=%zu\n", nthreads, vf::esc(jobs[0].a.data(), jobs[0].a.size()).c_str(), jobs[0].c, jobs[0].n);
    int mask = vf::mt_run(nthreads, [&](int tid) -> unsigned { return work(jobs[tid]); });
    if (mask == -1)
        vf::fail("concurrent:child-died", "the process running %d threads was killed by a signal", nthreads);
    if (mask == -2)
        vf::fail("concurrent:hang", "the process running %d threads exceeded its CPU limit", nthreads);
    static const char *const GN[6] = {"mem*", "strcpy/strncpy/strlcpy/strcat/strncat", "strcmp/strncmp/strcasecmp/strncasecmp", "strchr/strrchr/strchrnul/strstr/strcasestr/strpbrk/strspn/strcspn", "strtok_r", "strlen/strnlen/strdup/strndup/strlwr/strupr"};
    for (int g = 0; g < 6; g++)
        if (mask & (1 << g))
        {
            string k = string("concurrent:") + GN[g] + ":!=reference";
            vf::fail(k.c_str(), "%d threads on their own buffers: a result of this group differs from its reference (thread 0: a=\"%s\" b=\"%s\" c=%d n=%zu)", nthreads, vf::esc(jobs[0].a.data(), jobs[0].a.size()).c_str(), vf::esc(jobs[0].b.data(), jobs[0].b.size()).c_str(), jobs[0].c, jobs[0].n);
        }
    // the same jobs sequentially in this process: the references themselves must hold
    for (Job &j : jobs)
        if (unsigned b = work(j))
            vf::fail("sequential:!=reference", "group mask %u: the job disagrees with its reference even without concurrency (a=\"%s\" b=\"%s\" nd=\"%s\" set=\"%s\" c=%d n=%zu)", b, vf::esc(j.a.data(), j.a.size()).c_str(), vf::esc(j.b.data(), j.b.size()).c_str(), vf::esc(j.nd.data(), j.nd.size()).c_str(), vf::esc(j.set.data(), j.set.size()).c_str(), j.c, j.n);
    VF_OK("concurrent mem* on own buffers == reference");
    VF_OK("concurrent str copy/cat routines on own buffers == reference");
    VF_OK("concurrent str comparison routines on own buffers == reference");
    VF_OK("concurrent str search/span routines on own buffers == reference");
    VF_OK("concurrent strtok_r streams on own buffers == reference");
    VF_OK("concurrent strlen/strnlen/strdup/strndup/strlwr/strupr on own buffers == reference");
    vf::count_case(vf::mix(idx, vf::seed()), true);
    if (vf::want_sample())
        vf::sample("mt: %d threads x 30 routines x 8 rounds on own buffers (strtok excluded: documented static state)", nthreads);
}
VF_SUITE(concurrent, mt_count, mt_case)
extern "C" void vf_setup()
{
    for (const char *c : {"concurrent mem* on own buffers == reference", "concurrent str copy/cat routines on own buffers == reference",
                          "concurrent str comparison routines on own buffers == reference", "concurrent str search/span routines on own buffers == reference",
                          "concurrent strtok_r streams on own buffers == reference", "concurrent strlen/strnlen/strdup/strndup/strlwr/strupr on own buffers == reference"})
        vf::require(c);
}
