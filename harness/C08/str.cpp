// C08 — compat libc mem*/str* (renamed igc_*) against byte-loop references written from the
// ISO C / POSIX / BSD definitions. Every source is an exactly-sized heap block (ASan red zone
// right behind it, or right in front of it in the mirrored placement); every destination is
// run three times: exact block, mirrored exact block, pattern-filled region with guards.
#define VF_MAIN
#include "vf.h"
#include "guard.h"
#include <algorithm>
#include <ctype.h>
#include <malloc.h>
#include <memory>
#include <string>
#include <strings.h>
#include <vector>
extern "C"
{
#include <igris/util/ctype.h>
}
using std::string;
// the second asan unit is built with -funsigned-char -DVF_REDUCED (ARM-like plain char: the compat sources AND the
// references/generators here are compiled that way) and runs a reduced workload
#ifdef VF_REDUCED
static const bool REDUCED = true;
#else
static const bool REDUCED = false;
#endif

extern "C"
{
    void *igc_memcpy(void *, const void *, size_t);
    void *igc_memmove(void *, const void *, size_t);
    void *igc_memset(void *, int, size_t);
    int igc_memcmp(const void *, const void *, size_t);
    void *igc_memchr(const void *, int, size_t);
    void *igc_memrchr(const void *, int, size_t);
    size_t igc_strlen(const char *);
    size_t igc_strnlen(const char *, size_t);
    char *igc_strcpy(char *, const char *);
    char *igc_strncpy(char *, const char *, size_t);
    size_t igc_strlcpy(char *, const char *, size_t);
    char *igc_strcat(char *, const char *);
    char *igc_strncat(char *, const char *, size_t);
    int igc_strcmp(const char *, const char *);
    int igc_strncmp(const char *, const char *, size_t);
    int igc_strcasecmp(const char *, const char *);
    int igc_strncasecmp(const char *, const char *, size_t);
    char *igc_strchr(const char *, int);
    char *igc_strrchr(const char *, int);
    char *igc_strchrnul(const char *, int);
    char *igc_strstr(const char *, const char *);
    char *igc_strcasestr(const char *, const char *);
    size_t igc_strspn(const char *, const char *);
    size_t igc_strcspn(const char *, const char *);
    char *igc_strpbrk(const char *, const char *);
    char *igc_strtok(char *, const char *);
    char *igc_strtok_r(char *, const char *, char **);
    char *igc_strdup(const char *);
    char *igc_strndup(const char *, size_t);
    char *igc_strlwr(char *);
    char *igc_strupr(char *);
}

// ================================================================ plumbing
static string fmt(const char *f, ...) __attribute__((format(printf, 1, 2)));
static string fmt(const char *f, ...)
{
    char b[1400];
    va_list ap;
    va_start(ap, f);
    vsnprintf(b, sizeof b, f, ap);
    va_end(ap);
    return b;
}
static string q(const string &s) { return "\"" + vf::esc(s.data(), s.size(), 90) + "\""; }
static string q(const void *p, size_t n) { return "\"" + vf::esc(p, n, 90) + "\""; }
static int sgn(long x) { return (x > 0) - (x < 0); }

static const char *g_fn = "?", *g_class = "?";
static void CL(const char *fn, const char *c)
{
    g_fn = fn;
    g_class = c;
    char b[120];
    snprintf(b, sizeof b, "%s:%s", fn, c);
    vf::cls(b);
}
// lazily formatted witness of the call that is being made
static string (*g_wf)(void *) = nullptr;
static void *g_wc = nullptr;
template <class L> struct Wit
{
    Wit(L &l)
    {
        g_wf = [](void *p) { return (*(L *)p)(); };
        g_wc = &l;
        if (vf::verbose())
            printf("  call %s   [%s:%s]\n", l().c_str(), g_fn, g_class);
    }
    ~Wit() { g_wf = nullptr; }
};
#define FAIL(aspect, ...)                                                                      \
    do                                                                                         \
    {                                                                                          \
        string k_ = string(aspect) + ":" + g_fn + ":" + g_class;                               \
        string d_ = fmt(__VA_ARGS__);                                                          \
        vf::fail(k_.c_str(), "%s -> %s", g_wf ? g_wf(g_wc).c_str() : "?", d_.c_str());         \
    } while (0)

static const char *const MODE[3] = {"exact", "exact-mirrored", "region"};

// slack bytes of an exact block (the `misalign` bytes on the non-red-zone side) must keep 0xA5
static long exact_slack_dirty(const vf::Exact &e, unsigned mis, bool mirror)
{
    size_t total = e.n + mis ? e.n + mis : 8;
    if (!mirror)
    {
        for (unsigned char *p = e.base; p < e.p; p++)
            if (*p != 0xA5)
                return (long)(p - e.p);
    }
    else
        for (unsigned char *p = e.p + e.n; p < e.base + total; p++)
            if (*p != 0xA5)
                return (long)(p - e.p);
    return 0x7fffffff;
}
// a source block must not be modified by a read-only routine
static void src_same(const vf::Exact &e, const void *orig, const char *what = "source")
{
    if (e.n && memcmp(e.p, orig, e.n) != 0)
        FAIL("source-modified", "%s bytes were modified: now %s", what, q(e.p, e.n).c_str());
}

// destination in one of three shapes: exact block (ASan behind), mirrored exact block (ASan in
// front), pattern region (everything around the permitted extent compared afterwards)
struct Dst
{
    int mode;
    size_t n;
    unsigned mis;
    vf::Exact e;
    std::unique_ptr<vf::Region> r;
    unsigned char *p;
    Dst(int mode_, size_t n_, unsigned mis_, const void *init = nullptr, size_t initn = 0) : mode(mode_), n(n_), mis(mis_)
    {
        if (mode == 2)
        {
            r.reset(new vf::Region(n, 16 + mis, 16));
            p = r->win();
        }
        else
        {
            e.init(nullptr, n, mis, mode == 1);
            p = e.p;
        }
        for (size_t i = 0; i < n; i++)
            p[i] = fill(i);
        if (init && initn)
            memcpy(p, init, initn);
    }
    static unsigned char fill(size_t i) { return (unsigned char)(0xC3 ^ (i * 29)); }
    char *c() { return (char *)p; }
    // first `cmp` bytes must equal `exp`; bytes [cmp, n) are left open by the definition;
    // nothing outside [0, n) may change
    void expect(const void *exp, size_t cmp)
    {
        if (cmp && memcmp(p, exp, cmp) != 0)
        {
            size_t i = 0;
            while (p[i] == ((const unsigned char *)exp)[i])
                i++;
            FAIL("content", "%s dst[%zu]=0x%02x, definition says 0x%02x; dst=%s expected=%s", MODE[mode], i, p[i],
                 ((const unsigned char *)exp)[i], q(p, cmp).c_str(), q(exp, cmp).c_str());
        }
        long o = mode == 2 ? r->verify(0, n) : exact_slack_dirty(e, mis, mode == 1);
        if (mode == 2 && o == vf::Region::LONG_MIN_SENTINEL)
            o = 0x7fffffff;
        if (o != 0x7fffffff)
            FAIL("outside", "%s byte at dst%+ld (permitted extent is dst[0,%zu)) was modified", MODE[mode], o, n);
    }
    // bytes of the extent that the definition does not mention must keep their initial value
    void expect_untouched(size_t from, size_t to)
    {
        for (size_t i = from; i < to; i++)
            if (p[i] != fill(i))
                FAIL("untouched", "%s dst[%zu] was modified (0x%02x), the definition writes only dst[0,%zu)", MODE[mode], i, p[i], from);
    }
};

// ================================================================ references (byte loops)
typedef unsigned char uc;
static size_t r_strlen(const char *s)
{
    size_t i = 0;
    while (s[i])
        i++;
    return i;
}
static size_t r_strnlen(const char *s, size_t m)
{
    size_t i = 0;
    while (i < m && s[i])
        i++;
    return i;
}
static int r_memcmp(const void *a_, const void *b_, size_t n)
{
    const uc *a = (const uc *)a_, *b = (const uc *)b_;
    for (size_t i = 0; i < n; i++)
        if (a[i] != b[i])
            return a[i] < b[i] ? -1 : 1;
    return 0;
}
static long r_memchr(const void *s_, int c, size_t n)
{
    const uc *s = (const uc *)s_;
    for (size_t i = 0; i < n; i++)
        if (s[i] == (uc)c)
            return (long)i;
    return -1;
}
static long r_memrchr(const void *s_, int c, size_t n)
{
    const uc *s = (const uc *)s_;
    for (size_t i = n; i-- > 0;)
        if (s[i] == (uc)c)
            return (long)i;
    return -1;
}
static int lower(uc c) { return c >= 'A' && c <= 'Z' ? c + 32 : c; }
static int r_strncmp_gen(const char *a, const char *b, size_t n, bool fold)
{
    for (size_t i = 0; i < n; i++)
    {
        int x = (uc)a[i], y = (uc)b[i];
        if (fold)
            x = lower((uc)x), y = lower((uc)y);
        if (x != y)
            return x < y ? -1 : 1;
        if (!a[i])
            return 0;
    }
    return 0;
}
static long r_strchr(const char *s, int c)
{
    char ch = (char)c;
    for (size_t i = 0;; i++)
    {
        if (s[i] == ch)
            return (long)i;
        if (!s[i])
            return -1;
    }
}
static long r_strrchr(const char *s, int c)
{
    char ch = (char)c;
    long last = -1;
    for (size_t i = 0;; i++)
    {
        if (s[i] == ch)
            last = (long)i;
        if (!s[i])
            return last;
    }
}
static size_t r_strchrnul(const char *s, int c)
{
    char ch = (char)c;
    size_t i = 0;
    while (s[i] && s[i] != ch)
        i++;
    return i;
}
static long r_strstr_gen(const char *h, const char *nd, bool fold)
{
    size_t hl = r_strlen(h), nl = r_strlen(nd);
    for (size_t i = 0; i + nl <= hl; i++)
    {
        size_t k = 0;
        while (k < nl && (fold ? lower((uc)h[i + k]) == lower((uc)nd[k]) : h[i + k] == nd[k]))
            k++;
        if (k == nl)
            return (long)i;
    }
    return -1;
}
static bool in_set(char c, const char *set)
{
    for (; *set; set++)
        if (*set == c)
            return true;
    return false;
}
static size_t r_strspn(const char *s, const char *acc)
{
    size_t i = 0;
    while (s[i] && in_set(s[i], acc))
        i++;
    return i;
}
static size_t r_strcspn(const char *s, const char *rej)
{
    size_t i = 0;
    while (s[i] && !in_set(s[i], rej))
        i++;
    return i;
}
static long r_strpbrk(const char *s, const char *acc)
{
    size_t i = r_strcspn(s, acc);
    return s[i] ? (long)i : -1;
}
// strtok over a model buffer (ISO C 7.24.5.8): returns token start or -1
struct TokModel
{
    string buf; // extent incl. the original terminator
    size_t pos = 0;
    bool last_ran_to_end = false;
    long next(const char *delim)
    {
        size_t p = pos;
        while (buf[p] && in_set(buf[p], delim))
            p++;
        if (!buf[p])
            return -1; // saved pointer after a failed search is not fixed by ISO: never relied upon
        size_t start = p;
        while (buf[p] && !in_set(buf[p], delim))
            p++;
        if (buf[p])
        {
            buf[p] = 0;
            pos = p + 1;
            last_ran_to_end = false;
        }
        else
        {
            pos = p;
            last_ran_to_end = true;
        }
        return (long)start;
    }
};

// the references themselves are calibrated against host glibc on every evaluation
#define CALIB(name, refv, hostv)                                                                              \
    do                                                                                                        \
    {                                                                                                         \
        if ((long)(refv) != (long)(hostv))                                                                    \
            FAIL("harness-oracle-disagrees-with-glibc", name ": reference %ld, glibc %ld", (long)(refv), (long)(hostv)); \
    } while (0)

// Bounds far beyond every object: for the routines whose definition stops at the terminator these are
// ordinary arguments ("n larger than the string length"); arithmetic on the bound (n + 1, s + n, (int)n) must not leak
static const size_t EXTREME[] = {(size_t)1 << 16, ((size_t)1 << 31) - 1, (size_t)1 << 31, ((size_t)1 << 32) - 1, (size_t)1 << 32,
                                 SIZE_MAX / 2, SIZE_MAX / 2 + 1, SIZE_MAX - 1, SIZE_MAX};
static const size_t N_EXTREME = sizeof EXTREME / sizeof *EXTREME;
static bool extreme(size_t n) { return n >= ((size_t)1 << 16); }
static bool gib_range(size_t n) { return n > ((size_t)1 << 16) && n < SIZE_MAX / 2 - 8; }

// ================================================================ checks, one per routine
// ---- memcpy / memmove on separate blocks
static void chk_copy(bool move, const string &src, unsigned smis, unsigned dmis, unsigned modes)
{
    size_t n = src.size();
    for (int mode = 0; mode < 3; mode++)
    {
        if (!(modes >> mode & 1))
            continue;
        vf::Exact s(src.data(), n, smis, mode == 1);
        Dst d(mode, n, dmis);
        bool words = n >= 4 * sizeof(long) && (((uintptr_t)s.p | (uintptr_t)d.p) & (sizeof(long) - 1)) == 0;
        CL(move ? "memmove" : "memcpy", move ? "separate-blocks" : words ? "word-path" : "byte-path");
        auto W = [&] { return fmt("%s(dst, src=%s, n=%zu) src_misalign=%u dst_misalign=%u placement=%s", g_fn, vf::hex(src.data(), n, 48).c_str(), n, (unsigned)((uintptr_t)s.p & 7), (unsigned)((uintptr_t)d.p & 7), MODE[mode]); };
        Wit<decltype(W)> ws(W);
        void *r = move ? igc_memmove(d.p, s.p, n) : igc_memcpy(d.p, s.p, n);
        if (r != d.p)
            FAIL("ret", "returned dst%+ld instead of dst", (long)((char *)r - (char *)d.p));
        d.expect(src.data(), n);
        src_same(s, src.data());
        if (words)
            VF_OK("memcpy: word-copy path taken (both aligned, n >= 4 words)");
    }
    if (move)
        VF_OK("memmove (separate blocks): dst == src, returns dst, nothing else written");
    else
        VF_OK("memcpy: dst[0,n) == src, returns dst, nothing else written");
}
// ---- memmove inside one exact block: span = n + |off| bytes, src and dst `off` apart
static void chk_memmove_overlap(const string &span, size_t n, long off, unsigned mis, bool mirror)
{
    size_t so = off >= 0 ? 0 : (size_t)-off, dof = off >= 0 ? (size_t)off : 0;
    size_t aoff = (size_t)(off < 0 ? -off : off);
    CL("memmove", off == 0 ? "same" : aoff >= n ? "adjacent-disjoint" : off > 0 ? "overlap-dst-above-src" : "overlap-dst-below-src");
    auto W = [&] { return fmt("memmove(buf+%zu, buf+%zu, n=%zu) buf=%s misalign=%u %s", dof, so, n, vf::hex(span.data(), span.size(), 60).c_str(), mis, mirror ? "mirrored" : "normal"); };
    Wit<decltype(W)> ws(W);
    string exp = span;
    string tmp = span.substr(so, n);
    exp.replace(dof, n, tmp);
    vf::Exact e(span.data(), span.size(), mis, mirror);
    void *r = igc_memmove(e.p + dof, e.p + so, n);
    if (r != e.p + dof)
        FAIL("ret", "returned dst%+ld instead of dst", (long)((char *)r - (char *)(e.p + dof)));
    if (memcmp(e.p, exp.data(), exp.size()) != 0)
    {
        size_t i = 0;
        while (e.p[i] == (uc)exp[i])
            i++;
        FAIL("content", "buf[%zu]=0x%02x, definition (copy via temporary) says 0x%02x; buf=%s expected=%s", i, e.p[i], (uc)exp[i],
             vf::hex(e.p, exp.size(), 60).c_str(), vf::hex(exp.data(), exp.size(), 60).c_str());
    }
    long o = exact_slack_dirty(e, mis, mirror);
    if (o != 0x7fffffff)
        FAIL("outside", "byte at buf%+ld was modified", o);
    if (aoff && aoff < n)
    {
        if (off > 0)
            VF_OK("memmove: overlapping, dst above src == copy via temporary");
        else
            VF_OK("memmove: overlapping, dst below src == copy via temporary");
    }
    VF_OK("memmove (one block, every offset): result == copy via temporary, rest of block untouched");
}
static void chk_memset(size_t n, int c, unsigned dmis, unsigned modes)
{
    CL("memset", n ? "n>0" : "n=0");
    string exp(n, (char)(uc)c);
    for (int mode = 0; mode < 3; mode++)
    {
        if (!(modes >> mode & 1))
            continue;
        auto W = [&] { return fmt("memset(dst, c=%d, n=%zu) dst_misalign=%u placement=%s", c, n, dmis, MODE[mode]); };
        Wit<decltype(W)> ws(W);
        Dst d(mode, n, dmis);
        void *r = igc_memset(d.p, c, n);
        if (r != d.p)
            FAIL("ret", "returned dst%+ld instead of dst", (long)((char *)r - (char *)d.p));
        d.expect(exp.data(), n);
    }
    VF_OK("memset: dst[0,n) == (unsigned char)c, returns dst, nothing else written");
}
static void chk_memcmp(const string &a, const string &b, unsigned amis, unsigned bmis)
{
    size_t n = a.size();
    int ref = r_memcmp(a.data(), b.data(), n);
    CL("memcmp", n == 0 ? "n=0" : ref == 0 ? "equal" : "differ");
    for (int mirror = 0; mirror < 2; mirror++)
    {
        auto W = [&] { return fmt("memcmp(a=%s, b=%s, n=%zu) a_misalign=%u b_misalign=%u %s", vf::hex(a.data(), n, 48).c_str(), vf::hex(b.data(), n, 48).c_str(), n, amis, bmis, mirror ? "mirrored" : "normal"); };
        Wit<decltype(W)> ws(W);
        CALIB("memcmp", ref, sgn(memcmp(a.data(), b.data(), n)));
        vf::Exact A(a.data(), n, amis, mirror), B(b.data(), n, bmis, mirror);
        int r = igc_memcmp(A.p, B.p, n);
        if (sgn(r) != ref)
            FAIL("ret", "returned %d, sign must be %d (bytes compare as unsigned char)", r, ref);
        src_same(A, a.data());
        src_same(B, b.data());
    }
    VF_OK("memcmp: sign == unsigned byte-wise comparison of the first n bytes");
}
static void chk_memchr(bool rev, const string &s, int c, unsigned mis)
{
    size_t n = s.size();
    long ref = rev ? r_memrchr(s.data(), c, n) : r_memchr(s.data(), c, n);
    CL(rev ? "memrchr" : "memchr", n == 0 ? "n=0" : ref < 0 ? "absent" : "present");
    for (int mirror = 0; mirror < 2; mirror++)
    {
        auto W = [&] { return fmt("%s(s=%s, c=%d, n=%zu) misalign=%u %s", g_fn, vf::hex(s.data(), n, 48).c_str(), c, n, mis, mirror ? "mirrored" : "normal"); };
        Wit<decltype(W)> ws(W);
        const void *h = rev ? memrchr(s.data(), c, n) : memchr(s.data(), c, n);
        CALIB("mem(r)chr", ref, h ? (const char *)h - s.data() : -1);
        vf::Exact S(s.data(), n, mis, mirror);
        void *r = rev ? igc_memrchr(S.p, c, n) : igc_memchr(S.p, c, n);
        long got = r ? (long)((uc *)r - S.p) : -1;
        if (got != ref)
            FAIL("ret", "returned offset %ld, definition says %ld (-1 = NULL)", got, ref);
        src_same(S, s.data());
    }
    if (rev)
        VF_OK("memrchr: last occurrence within n bytes or NULL; n == 0 reads nothing");
    else
        VF_OK("memchr: first occurrence within n bytes or NULL");
}

// ---- strlen / strnlen
static void chk_strlen(const string &s, unsigned mis)
{
    CL("strlen", s.empty() ? "empty" : "nonempty");
    for (int mirror = 0; mirror < 2; mirror++)
    {
        auto W = [&] { return fmt("strlen(%s) misalign=%u %s", q(s).c_str(), mis, mirror ? "mirrored" : "normal"); };
        Wit<decltype(W)> ws(W);
        CALIB("strlen", r_strlen(s.c_str()), strlen(s.c_str()));
        vf::ExactStr S(s, mis, mirror);
        size_t r = igc_strlen(S.cc());
        if (r != s.size())
            FAIL("ret", "returned %zu, length is %zu", r, s.size());
        src_same(S, s.c_str());
    }
    VF_OK("strlen == offset of the terminator");
}
static void chk_strnlen(const string &s, size_t maxlen, unsigned mis)
{
    CL("strnlen", maxlen <= s.size() ? "maxlen<=len" : extreme(maxlen) ? "maxlen-extreme" : "maxlen>len");
    size_t rd = std::min(s.size() + 1, maxlen); // bytes the definition allows to examine
    size_t ref = r_strnlen(s.c_str(), maxlen);
    for (int mirror = 0; mirror < 2; mirror++)
    {
        auto W = [&] { return fmt("strnlen(%s, maxlen=%zu) (array of %zu bytes) misalign=%u %s", q(s).c_str(), maxlen, rd, mis, mirror ? "mirrored" : "normal"); };
        Wit<decltype(W)> ws(W);
        CALIB("strnlen", ref, strnlen(s.c_str(), maxlen));
        vf::Exact S(s.c_str(), rd, mis, mirror);
        size_t r = igc_strnlen(S.cc(), maxlen);
        if (r != ref)
            FAIL("ret", "returned %zu, definition says %zu", r, ref);
    }
    if (extreme(maxlen))
        VF_OK("strnlen: extreme maxlen (2^16 .. SIZE_MAX) on a terminated string == len");
    VF_OK("strnlen == min(len, maxlen), examines at most maxlen bytes");
}
// ---- strcpy / strncpy / strlcpy
static void chk_strcpy(const string &s, unsigned smis, unsigned dmis)
{
    CL("strcpy", s.empty() ? "empty" : "nonempty");
    for (int mode = 0; mode < 3; mode++)
    {
        auto W = [&] { return fmt("strcpy(dst, %s) src_misalign=%u dst_misalign=%u placement=%s", q(s).c_str(), smis, dmis, MODE[mode]); };
        Wit<decltype(W)> ws(W);
        vf::ExactStr S(s, smis, mode == 1);
        Dst d(mode, s.size() + 1, dmis);
        char *r = igc_strcpy(d.c(), S.cc());
        if (r != d.c())
            FAIL("ret", "returned dst%+ld instead of dst", (long)(r - d.c()));
        d.expect(s.c_str(), s.size() + 1);
        src_same(S, s.c_str());
    }
    VF_OK("strcpy: dst == src incl. terminator, returns dst, nothing else written");
}
static void chk_strncpy(const string &s, size_t n, unsigned smis, unsigned dmis)
{
    CL("strncpy", n <= s.size() ? "n<=len" : "n>len");
    size_t rd = std::min(s.size() + 1, n);
    string exp(n, '\0');
    for (size_t i = 0; i < n && i < s.size(); i++)
        exp[i] = s[i];
    for (int mode = 0; mode < 3; mode++)
    {
        auto W = [&] { return fmt("strncpy(dst, %s, n=%zu) src_misalign=%u dst_misalign=%u placement=%s", q(s).c_str(), n, smis, dmis, MODE[mode]); };
        Wit<decltype(W)> ws(W);
        {
            string hb(n + 1, '#');
            strncpy(&hb[0], s.c_str(), n);
            CALIB("strncpy", 0, memcmp(hb.data(), exp.data(), n));
        }
        vf::Exact S(s.c_str(), rd, smis, mode == 1);
        Dst d(mode, n, dmis);
        char *r = igc_strncpy(d.c(), S.cc(), n);
        if (r != d.c())
            FAIL("ret", "returned dst%+ld instead of dst", (long)(r - d.c()));
        d.expect(exp.data(), n);
    }
    if (n > s.size() + 1)
        VF_OK("strncpy: pads with NULs up to n");
    VF_OK("strncpy: exactly n bytes written = prefix of src + NUL padding, reads at most n bytes of src");
}
static void chk_strlcpy(const string &s, size_t size, unsigned smis, unsigned dmis)
{
    CL("strlcpy", size == 0 ? "size=0" : size <= s.size() ? "truncating" : "fits");
    size_t w = size ? std::min(s.size(), size - 1) : 0; // characters copied
    string exp = s.substr(0, w);
    for (int mode = 0; mode < 3; mode++)
    {
        auto W = [&] { return fmt("strlcpy(dst, %s, size=%zu) src_misalign=%u dst_misalign=%u placement=%s", q(s).c_str(), size, smis, dmis, MODE[mode]); };
        Wit<decltype(W)> ws(W);
        vf::ExactStr S(s, smis, mode == 1);
        Dst d(mode, size, dmis);
        size_t r = igc_strlcpy(d.c(), S.cc(), size);
        if (r != s.size())
            FAIL("ret", "returned %zu, BSD definition says strlen(src) = %zu", r, s.size());
        d.expect(exp.c_str(), size ? w + 1 : 0);
        src_same(S, s.c_str());
    }
    VF_OK("strlcpy: min(len,size-1) chars + NUL, returns strlen(src), size 0 writes nothing");
}
// ---- strcat / strncat
static void chk_strcat(const string &d0, const string &s, bool bounded, size_t n, unsigned smis, unsigned dmis)
{
    size_t take = bounded ? std::min(n, s.size()) : s.size();
    CL(bounded ? "strncat" : "strcat", !bounded ? (s.empty() ? "empty-src" : "nonempty-src") : n < s.size() ? "n<len(src)" : n == s.size() ? "n=len(src)" : extreme(n) ? "n-extreme" : "n>len(src)");
    string exp = d0 + s.substr(0, take);
    size_t rd = bounded ? std::min(s.size() + 1, (size_t)n) : s.size() + 1;
    for (int mode = 0; mode < 3; mode++)
    {
        auto W = [&] { return fmt("%s(dst=%s, src=%s%s) src_misalign=%u dst_misalign=%u placement=%s", g_fn, q(d0).c_str(), q(s).c_str(), bounded ? fmt(", n=%zu", n).c_str() : "", smis, dmis, MODE[mode]); };
        Wit<decltype(W)> ws(W);
        {
            string hb(exp.size() + 2, '#');
            memcpy(&hb[0], d0.c_str(), d0.size() + 1);
            if (bounded)
                strncat(&hb[0], s.c_str(), (size_t)n);
            else
                strcat(&hb[0], s.c_str());
            CALIB("str(n)cat", 0, memcmp(hb.data(), exp.c_str(), exp.size() + 1));
        }
        vf::Exact S(s.c_str(), rd, smis, mode == 1);
        Dst d(mode, exp.size() + 1, dmis, d0.c_str(), d0.size() + 1);
        char *r = bounded ? igc_strncat(d.c(), S.cc(), (size_t)n) : igc_strcat(d.c(), S.cc());
        if (r != d.c())
            FAIL("ret", "returned dst%+ld instead of dst", (long)(r - d.c()));
        d.expect(exp.c_str(), exp.size() + 1);
    }
    if (bounded && extreme(n))
        VF_OK("strncat: extreme n (2^16 .. SIZE_MAX) appends the whole terminated src");
    if (bounded)
        VF_OK("strncat: dst + at most n chars of src + NUL, reads at most n bytes of src");
    else
        VF_OK("strcat: dst + src + NUL, returns dst, nothing else written");
}
// ---- comparisons
enum CmpKind
{
    K_STRCMP,
    K_STRNCMP,
    K_STRCASECMP,
    K_STRNCASECMP
};
static void chk_cmp(CmpKind k, const string &a, const string &b, size_t n, unsigned amis, unsigned bmis)
{
    bool bounded = k == K_STRNCMP || k == K_STRNCASECMP, fold = k == K_STRCASECMP || k == K_STRNCASECMP;
    static const char *const NAMES[] = {"strcmp", "strncmp", "strcasecmp", "strncasecmp"};
    size_t lim = bounded ? n : (size_t)-1;
    int ref = r_strncmp_gen(a.c_str(), b.c_str(), lim, fold);
    CL(NAMES[k], bounded && n == 0 ? "n=0" : bounded && extreme(n) ? (ref == 0 ? "n-extreme-equal" : "n-extreme-differ") : ref == 0 ? "equal" : "differ");
    size_t ra = std::min(a.size() + 1, lim), rb = std::min(b.size() + 1, lim);
    for (int mirror = 0; mirror < 2; mirror++)
    {
        auto W = [&] { return fmt("%s(%s, %s%s) misalign=%u,%u %s", g_fn, q(a).c_str(), q(b).c_str(), bounded ? fmt(", n=%zu", n).c_str() : "", amis, bmis, mirror ? "mirrored" : "normal"); };
        Wit<decltype(W)> ws(W);
        int host = k == K_STRCMP ? strcmp(a.c_str(), b.c_str()) : k == K_STRNCMP ? strncmp(a.c_str(), b.c_str(), n) : k == K_STRCASECMP ? strcasecmp(a.c_str(), b.c_str()) : strncasecmp(a.c_str(), b.c_str(), n);
        CALIB("str(n)(case)cmp", ref, sgn(host));
        vf::Exact A(a.c_str(), ra, amis, mirror), B(b.c_str(), rb, bmis, mirror);
        int r = k == K_STRCMP ? igc_strcmp(A.cc(), B.cc()) : k == K_STRNCMP ? igc_strncmp(A.cc(), B.cc(), n) : k == K_STRCASECMP ? igc_strcasecmp(A.cc(), B.cc()) : igc_strncasecmp(A.cc(), B.cc(), n);
        if (sgn(r) != ref)
            FAIL("ret", "returned %d, sign must be %d", r, ref);
        src_same(A, a.c_str());
        src_same(B, b.c_str());
    }
    if (bounded && extreme(n))
    {
        if (fold)
            VF_OK("strncasecmp: extreme n (2^16 .. SIZE_MAX) == strcasecmp on terminated strings");
        else
            VF_OK("strncmp: extreme n (2^16 .. SIZE_MAX) == strcmp on terminated strings");
    }
    switch (k)
    {
    case K_STRCMP: VF_OK("strcmp: sign == unsigned char comparison up to the terminator"); break;
    case K_STRNCMP: VF_OK("strncmp: sign == comparison of at most n chars; n == 0 -> 0, reads nothing"); break;
    case K_STRCASECMP: VF_OK("strcasecmp: sign == comparison of the lower-cased strings (C locale)"); break;
    case K_STRNCASECMP: VF_OK("strncasecmp: sign == comparison of at most n lower-cased chars"); break;
    }
}
// ---- character searches
enum ChrKind
{
    K_STRCHR,
    K_STRRCHR,
    K_STRCHRNUL
};
static void chk_chr(ChrKind k, const string &s, int c, unsigned mis)
{
    static const char *const NAMES[] = {"strchr", "strrchr", "strchrnul"};
    long ref = k == K_STRCHR ? r_strchr(s.c_str(), c) : k == K_STRRCHR ? r_strrchr(s.c_str(), c) : (long)r_strchrnul(s.c_str(), c);
    bool found = k == K_STRCHRNUL ? (size_t)ref < s.size() || (char)c == 0 : ref >= 0;
    CL(NAMES[k], (char)c == 0 ? "c=NUL" : c < 0 ? (found ? "negative-c-present" : "negative-c-absent") : found ? "present" : "absent");
    for (int mirror = 0; mirror < 2; mirror++)
    {
        auto W = [&] { return fmt("%s(%s, c=%d) misalign=%u %s", g_fn, q(s).c_str(), c, mis, mirror ? "mirrored" : "normal"); };
        Wit<decltype(W)> ws(W);
        const char *h = k == K_STRCHR ? strchr(s.c_str(), c) : k == K_STRRCHR ? strrchr(s.c_str(), c) : strchrnul(s.c_str(), c);
        CALIB("str(r)chr(nul)", ref, h ? h - s.c_str() : -1);
        vf::ExactStr S(s, mis, mirror);
        char *r = k == K_STRCHR ? igc_strchr(S.cc(), c) : k == K_STRRCHR ? igc_strrchr(S.cc(), c) : igc_strchrnul(S.cc(), c);
        long got = r ? (long)(r - S.cc()) : -1;
        if (got != ref)
            FAIL("ret", "returned offset %ld, definition says %ld (-1 = NULL; c is converted to char)", got, ref);
        src_same(S, s.c_str());
    }
    switch (k)
    {
    case K_STRCHR: VF_OK("strchr: first occurrence of (char)c, terminator included, else NULL"); break;
    case K_STRRCHR: VF_OK("strrchr: last occurrence of (char)c, terminator included, else NULL"); break;
    case K_STRCHRNUL: VF_OK("strchrnul: first occurrence of (char)c or the terminator"); break;
    }
}
// ---- two-string searches / spans
enum SetKind
{
    K_STRSTR,
    K_STRCASESTR,
    K_STRSPN,
    K_STRCSPN,
    K_STRPBRK
};
static void chk_two(SetKind k, const string &a, const string &b, unsigned amis, unsigned bmis)
{
    static const char *const NAMES[] = {"strstr", "strcasestr", "strspn", "strcspn", "strpbrk"};
    long ref;
    switch (k)
    {
    case K_STRSTR: ref = r_strstr_gen(a.c_str(), b.c_str(), false); break;
    case K_STRCASESTR: ref = r_strstr_gen(a.c_str(), b.c_str(), true); break;
    case K_STRSPN: ref = (long)r_strspn(a.c_str(), b.c_str()); break;
    case K_STRCSPN: ref = (long)r_strcspn(a.c_str(), b.c_str()); break;
    default: ref = r_strpbrk(a.c_str(), b.c_str()); break;
    }
    bool ptr = k == K_STRSTR || k == K_STRCASESTR || k == K_STRPBRK;
    CL(NAMES[k], b.empty() ? "empty-second" : a.empty() ? "empty-first" : ptr ? (ref < 0 ? "absent" : "present") : ref == 0 ? "zero" : (size_t)ref == a.size() ? "whole" : "part");
    for (int mirror = 0; mirror < 2; mirror++)
    {
        auto W = [&] { return fmt("%s(%s, %s) misalign=%u,%u %s", g_fn, q(a).c_str(), q(b).c_str(), amis, bmis, mirror ? "mirrored" : "normal"); };
        Wit<decltype(W)> ws(W);
        long host;
        const char *hp;
        switch (k)
        {
        case K_STRSTR: hp = strstr(a.c_str(), b.c_str()); host = hp ? hp - a.c_str() : -1; break;
        case K_STRCASESTR: hp = strcasestr(a.c_str(), b.c_str()); host = hp ? hp - a.c_str() : -1; break;
        case K_STRSPN: host = (long)strspn(a.c_str(), b.c_str()); break;
        case K_STRCSPN: host = (long)strcspn(a.c_str(), b.c_str()); break;
        default: hp = strpbrk(a.c_str(), b.c_str()); host = hp ? hp - a.c_str() : -1; break;
        }
        CALIB("strstr/strcasestr/strspn/strcspn/strpbrk", ref, host);
        vf::ExactStr A(a, amis, mirror), B(b, bmis, mirror);
        long got;
        char *rp;
        switch (k)
        {
        case K_STRSTR: rp = igc_strstr(A.cc(), B.cc()); got = rp ? rp - A.cc() : -1; break;
        case K_STRCASESTR: rp = igc_strcasestr(A.cc(), B.cc()); got = rp ? rp - A.cc() : -1; break;
        case K_STRSPN: got = (long)igc_strspn(A.cc(), B.cc()); break;
        case K_STRCSPN: got = (long)igc_strcspn(A.cc(), B.cc()); break;
        default: rp = igc_strpbrk(A.cc(), B.cc()); got = rp ? rp - A.cc() : -1; break;
        }
        if (got != ref)
            FAIL("ret", "returned %ld, definition says %ld (-1 = NULL)", got, ref);
        src_same(A, a.c_str());
        src_same(B, b.c_str());
    }
    switch (k)
    {
    case K_STRSTR: VF_OK("strstr: first occurrence of needle (empty needle -> haystack) else NULL"); break;
    case K_STRCASESTR: VF_OK("strcasestr: first case-insensitive occurrence else NULL"); break;
    case K_STRSPN: VF_OK("strspn: length of the initial segment made of accept chars"); break;
    case K_STRCSPN: VF_OK("strcspn: length of the initial segment free of reject chars"); break;
    case K_STRPBRK: VF_OK("strpbrk: first char of s that is in accept else NULL"); break;
    }
}
// ---- strdup / strndup
static void chk_dup(const string &s, bool bounded, size_t size, unsigned mis)
{
    CL(bounded ? "strndup" : "strdup", !bounded ? (s.empty() ? "empty" : "nonempty") : size <= s.size() ? "size<=len" : extreme(size) ? "size-extreme" : "size>len");
    size_t take = bounded ? std::min(size, s.size()) : s.size();
    size_t rd = bounded ? std::min(s.size() + 1, size) : s.size() + 1;
    for (int mirror = 0; mirror < 2; mirror++)
    {
        auto W = [&] { return fmt("%s(%s%s) (array of %zu bytes) misalign=%u %s", g_fn, q(s).c_str(), bounded ? fmt(", size=%zu", size).c_str() : "", rd, mis, mirror ? "mirrored" : "normal"); };
        Wit<decltype(W)> ws(W);
        vf::Exact S(s.c_str(), rd, mis, mirror);
        // the compat objects call the host allocator (malloc is not defined by them, hence not renamed):
        // the block is an ASan heap block, its size is observable
        char *r = bounded ? igc_strndup(S.cc(), size) : igc_strdup(S.cc());
        if (!r)
            FAIL("ret", "returned NULL although %zu bytes are all that is needed and memory is available", take + 1);
        if (r == S.cc())
            FAIL("ret", "returned the argument itself");
        size_t have = malloc_usable_size(r); // under ASan: the size that was requested from malloc
        if (have < take + 1)
        {
            free(r);
            FAIL("block-size", "the returned block has %zu bytes, the copy needs %zu", have, take + 1);
        }
        bool ok = memcmp(r, s.data(), take) == 0 && r[take] == 0; // ASan checks that take+1 bytes belong to the block
        string got = ok ? "" : q(r, take + 1);
        free(r); // must be a malloc block (ASan: bad-free otherwise)
        if (!ok)
            FAIL("content", "copy is %s, definition says %s + NUL", got.c_str(), q(s.substr(0, take)).c_str());
        src_same(S, s.c_str());
        VF_MAX("strdup/strndup: bytes allocated beyond len+1 (max, informational)", have - (take + 1));
    }
    if (bounded && extreme(size))
        VF_OK("strndup: extreme size (2^16 .. SIZE_MAX) duplicates the whole terminated string, non-NULL");
    if (bounded)
        VF_OK("strndup: new block with min(len,size) chars + NUL, reads at most size bytes of s");
    else
        VF_OK("strdup: new malloc block equal to s incl. terminator");
}
// ---- memchr with n beyond the object: C11 7.24.5.1p2 "behaves as if it reads the characters sequentially and stops
// as soon as a matching character is found" - defined exactly when c occurs inside the object (memrchr/memcmp: not defined)
static void chk_memchr_beyond(const string &obj, int c, size_t n, unsigned mis)
{
    long ref = r_memchr(obj.data(), c, obj.size());
    if (ref < 0 || n <= obj.size())
        return;
    CL("memchr", extreme(n) ? "n-extreme-match-inside" : "n>object-match-inside");
    for (int mirror = 0; mirror < 2; mirror++)
    {
        auto W = [&] { return fmt("memchr(s=%s (object of %zu bytes), c=%d, n=%zu) misalign=%u %s", vf::hex(obj.data(), obj.size(), 48).c_str(), obj.size(), c, n, mis, mirror ? "mirrored" : "normal"); };
        Wit<decltype(W)> ws(W);
        vf::Exact S(obj.data(), obj.size(), mis, mirror);
        void *r = igc_memchr(S.p, c, n);
        long got = r ? (long)((uc *)r - S.p) : -1;
        if (got != ref)
            FAIL("ret", "returned offset %ld, definition says %ld (-1 = NULL)", got, ref);
        src_same(S, obj.data());
    }
    VF_OK("memchr: n beyond the object, match inside -> first occurrence, nothing behind it read");
}
// ---- strlwr / strupr (ASCII letters only; every other byte, high-bit ones included, unchanged)
static void chk_case(bool up, const string &s, unsigned mis)
{
    CL(up ? "strupr" : "strlwr", s.empty() ? "empty" : "nonempty");
    string exp = s;
    for (char &ch : exp)
        if (up ? (ch >= 'a' && ch <= 'z') : (ch >= 'A' && ch <= 'Z'))
            ch = (char)(up ? ch - 32 : ch + 32);
    for (int mode = 0; mode < 3; mode++)
    {
        auto W = [&] { return fmt("%s(%s) misalign=%u placement=%s", g_fn, q(s).c_str(), mis, MODE[mode]); };
        Wit<decltype(W)> ws(W);
        for (size_t i = 0; i < s.size(); i++)
            CALIB("strlwr/strupr (per char, C locale)", (uc)exp[i], up ? toupper((uc)s[i]) : tolower((uc)s[i]));
        Dst d(mode, s.size() + 1, mis, s.c_str(), s.size() + 1);
        char *r = up ? igc_strupr(d.c()) : igc_strlwr(d.c());
        if (r != d.c())
            FAIL("ret", "returned str%+ld instead of str", (long)(r - d.c()));
        d.expect(exp.c_str(), s.size() + 1);
    }
    if (up)
        VF_OK("strupr: a-z -> A-Z in place, everything else unchanged, returns str");
    else
        VF_OK("strlwr: A-Z -> a-z in place, everything else unchanged, returns str");
}
// ---- strtok / strtok_r over a whole token stream; the delimiter set may change between calls
static void chk_tok(bool reentrant, const string &s, const std::vector<string> &delims, unsigned mis, bool mirror)
{
    CL(reentrant ? "strtok_r" : "strtok", delims.size() > 1 ? "changing-delims" : "stream");
    size_t L = s.size();
    TokModel m;
    m.buf.assign(s.c_str(), L + 1);
    string trace;
    int call = 0;
    auto W = [&] { return fmt("%s stream over %s, delimiter sets per call {%s}; calls so far: %s; misalign=%u %s", g_fn, q(s).c_str(), [&] { string d; for (auto &x : delims) d += q(x) + " "; return d; }().c_str(), trace.c_str(), mis, mirror ? "mirrored" : "normal"); };
    Wit<decltype(W)> ws(W);
    vf::ExactStr buf(s, mis, mirror);
    std::vector<std::unique_ptr<vf::ExactStr>> D;
    for (auto &d : delims)
        D.emplace_back(new vf::ExactStr(d, (unsigned)(d.size() % 3), mirror));
    char *save = (char *)(uintptr_t)0x10; // "the value pointed to by lasts is ignored" on the first call
    int tokens = 0, tail_nulls = 0;
    // glibc on its own copy calibrates the model
    string hb(s.c_str(), L + 1);
    char *hsave = nullptr;
    for (;; call++)
    {
        size_t di = call % delims.size();
        long exp = m.next(delims[di].c_str());
        char *h = strtok_r(call == 0 ? &hb[0] : nullptr, delims[di].c_str(), &hsave);
        CALIB("strtok model", exp, h ? h - &hb[0] : -1);
        char *r = reentrant ? igc_strtok_r(call == 0 ? buf.c() : nullptr, D[di]->cc(), &save) : igc_strtok(call == 0 ? buf.c() : nullptr, D[di]->cc());
        long got = r ? (long)(r - buf.c()) : -1;
        trace += fmt("#%d(%s)->%ld ", call, q(delims[di]).c_str(), got);
        if (got != exp)
            FAIL("ret", "call #%d returned offset %ld, definition says %ld (-1 = NULL)", call, got, exp);
        if (memcmp(buf.p, m.buf.data(), L + 1) != 0)
            FAIL("content", "after call #%d the string is %s, definition says %s", call, q(buf.p, L + 1).c_str(), q(m.buf.data(), L + 1).c_str());
        if (exp >= 0)
        {
            tokens++;
            VF_OK("strtok(_r): token start and terminating NUL as defined");
            continue;
        }
        // NULL: ISO guarantees NULL for every later call only when the last token ran to the end of the string
        if (tokens && m.last_ran_to_end && tail_nulls < 2)
        {
            tail_nulls++;
            VF_OK("strtok(_r): NULL again after the last token reached the end of the string");
            continue;
        }
        break;
    }
    src_same(*D[0], delims[0].c_str(), "delimiter");
    if (reentrant)
        VF_OK("strtok_r: whole stream == model (tokens, inserted NULs, final NULL)");
    else
        VF_OK("strtok: whole stream == model (tokens, inserted NULs, final NULL)");
}

// ================================================================ workload
static const uc ALPHA8[8] = {0, 1, 'A', 'a', 'z', 0x7F, 0x80, 0xFF};
static const int CHARS[] = {0, 1, 'A', 'a', 'z', 'Z', 0x7F, 0x80, 0xFF, -128, -1, -2, -65, 0xC1}; // int holding an unsigned char value, and negative char values
static const char CASEY[] = {'A', 'a', 'B', 'b', 'Z', 'z', '@', '[', '`', '{', (char)0xC1, (char)0xE1};

static string gen(vf::Rng &r, size_t n, bool allow_nul, int mode = -1)
{
    if (mode < 0)
        mode = (int)r.below(5);
    string s(n, 'x');
    char run = (char)ALPHA8[1 + r.below(7)];
    for (size_t i = 0; i < n; i++)
    {
        uc c;
        switch (mode)
        {
        case 0: c = (uc)r.next(); break;
        case 1: c = ALPHA8[r.below(8)]; break;
        case 2: c = (uc)CASEY[r.below(sizeof CASEY)]; break;
        case 3: c = r.chance(1, 8) ? (uc)r.next() : (uc)run; break;
        default: c = (uc)("ab,; \x80"[r.below(6)]); break;
        }
        if (!allow_nul && c == 0)
            c = 1 + (uc)r.below(255);
        s[i] = (char)c;
    }
    return s;
}
// a string related to s: equal, case-flipped, one byte changed, prefix, extension, substring
static string relative(vf::Rng &r, const string &s)
{
    string t = s;
    switch (r.below(8))
    {
    case 0: break;
    case 1:
        for (char &c : t)
            if (r.chance(1, 2))
                c = (c >= 'a' && c <= 'z') ? c - 32 : (c >= 'A' && c <= 'Z') ? c + 32 : c;
        break;
    case 2:
        if (!t.empty())
        {
            size_t i = r.below(t.size());
            static const int D[] = {1, -1, 32, -32, 0x80};
            t[i] = (char)(t[i] + D[r.below(5)]);
            if (!t[i])
                t[i] = 1;
        }
        break;
    case 3: t = t.substr(0, r.below(t.size() + 1)); break;
    case 4: t += gen(r, 1 + r.below(3), false); break;
    case 5:
    {
        size_t a = r.below(t.size() + 1);
        t = t.substr(a, r.below(t.size() - a + 1));
        break;
    }
    case 6: t = gen(r, r.below(4), false, 4); break;
    default: t = gen(r, s.size(), false); break;
    }
    return t;
}

// all strings over `alpha` up to length maxlen, in length-lexicographic order
static std::vector<string> universe(const string &alpha, int maxlen)
{
    std::vector<string> u{""};
    size_t from = 0;
    for (int l = 1; l <= maxlen; l++)
    {
        size_t to = u.size();
        for (size_t i = from; i < to; i++)
            for (char c : alpha)
                u.push_back(u[i] + c);
        from = to;
    }
    return u;
}
static const string S7("\x01" "Aaz\x7F\x80\xFF", 7);
static const string S4("Aa\x80z", 4);
static const std::vector<string> &uni_single() // single-string routines: all strings of length <= 3 (quick) / 4 over 7 symbols
{
    static std::vector<string> u = universe(S7, REDUCED ? 2 : vf::thorough() ? 4 : 3);
    return u;
}
static const std::vector<string> &uni_pair() // pair routines
{
    static std::vector<string> u = [] {
        if (REDUCED)
            return universe(S7, 2);
        if (vf::thorough())
            return universe(S7, 3);
        std::vector<string> a = universe(S7, 2), b = universe(S4, 3);
        for (auto &s : b)
            if (s.size() == 3)
                a.push_back(s);
        return a;
    }();
    return u;
}

// ---------------------------------------------------------------- suite: mem* sweeps (lengths x alignments x overlaps)
enum
{
    M_MEMCPY,
    M_MEMMOVE,
    M_MEMMOVE_SEP,
    M_MEMSET,
    M_MEMCMP,
    M_MEMCHR,
    M_MEMRCHR,
    M_COUNT
};
static size_t mem_maxlen() { return REDUCED ? 33 : vf::thorough() ? 72 : 40; }
static uint64_t mem_count() { return M_COUNT * (mem_maxlen() + 1); }
static void mem_run(uint64_t idx)
{
    int fn = (int)(idx % M_COUNT);
    size_t n = idx / M_COUNT;
    vf::Rng r(vf::seed(), 0xC08A, idx);
    uint64_t evals = 0;
    switch (fn)
    {
    case M_MEMCPY:
    case M_MEMMOVE_SEP:
        for (unsigned sm = 0; sm < 8; sm++)
            for (unsigned dm = 0; dm < 8; dm++)
            {
                string s = gen(r, n, true, (int)((sm + dm) % 2)); // uniform bytes / the 8-symbol alphabet
                chk_copy(fn == M_MEMMOVE_SEP, s, sm, dm, (sm == 0 && dm == 0) ? 7 : sm == dm ? 5 : 1);
                evals++;
            }
        // 8-byte aligned but not 16-byte aligned, and one aligned / one not
        chk_copy(fn == M_MEMMOVE_SEP, gen(r, n, true, 0), 8, 8, 1);
        chk_copy(fn == M_MEMMOVE_SEP, gen(r, n, true, 0), 8, 0, 1);
        chk_copy(fn == M_MEMMOVE_SEP, gen(r, n, true, 0), 0, 12, 1);
        evals += 3;
        break;
    case M_MEMMOVE:
        for (long off = -(long)mem_maxlen(); off <= (long)mem_maxlen(); off++)
        {
            size_t span = n + (size_t)(off < 0 ? -off : off);
            unsigned mis = (unsigned)((off + 80) % 8);
            chk_memmove_overlap(gen(r, span, true, 0), n, off, mis, false);
            chk_memmove_overlap(gen(r, span, true, 1), n, off, mis, true);
            chk_memmove_overlap(gen(r, span, true, 0), n, off, 0, false);
            evals += 3;
        }
        break;
    case M_MEMSET:
        for (unsigned dm = 0; dm < 8; dm++)
            for (int c : CHARS)
            {
                chk_memset(n, c, dm, dm == 0 ? 7 : 1);
                evals++;
            }
        break;
    case M_MEMCMP:
        for (unsigned am = 0; am < 8; am += (n > 8 ? 3 : 1))
            for (unsigned bm = 0; bm < 8; bm += 3)
            {
                string a = gen(r, n, true);
                chk_memcmp(a, a, am, bm);
                evals++;
                static const uc PAIRS[][2] = {{0, 1}, {0x7F, 0x80}, {0xFF, 0}, {1, 0xFF}, {'a', 'A'}, {0x80, 0x81}};
                for (size_t pos : {(size_t)0, n / 2, n ? n - 1 : 0})
                    for (auto &p : PAIRS)
                    {
                        if (!n)
                            continue;
                        string b = a, a2 = a;
                        a2[pos] = (char)p[0];
                        b[pos] = (char)p[1];
                        // bytes behind the first difference pull the other way
                        for (size_t i = pos + 1; i < n; i++)
                            a2[i] = (char)(p[0] < p[1] ? 0xFF : 0), b[i] = (char)(p[0] < p[1] ? 0 : 0xFF);
                        chk_memcmp(a2, b, am, bm);
                        evals++;
                    }
            }
        break;
    case M_MEMCHR:
    case M_MEMRCHR:
        for (unsigned mis = 0; mis < 8; mis++)
            for (int c : CHARS)
            {
                bool rev = fn == M_MEMRCHR;
                string s = gen(r, n, true, 1);
                chk_memchr(rev, s, c, mis); // as generated (several occurrences likely)
                evals++;
                for (char &ch : s)
                    if (ch == (char)c)
                        ch = (char)(c + 1);
                chk_memchr(rev, s, c, mis); // absent
                evals++;
                if (n)
                {
                    for (size_t pos : {(size_t)0, n - 1, (size_t)r.below(n)})
                    {
                        string t = s;
                        t[pos] = (char)c;
                        chk_memchr(rev, t, c, mis); // exactly one
                        evals++;
                    }
                    s[0] = s[n - 1] = (char)c;
                    chk_memchr(rev, s, c, mis); // first and last
                    evals++;
                }
            }
        break;
    }
    vf::count_bulk(evals, n ? evals : 0);
    if (vf::want_sample() && n == 33 && fn == M_MEMMOVE)
        vf::sample("mem sweep: memmove n=33, every offset -%zu..%zu, 3 placements each", mem_maxlen(), mem_maxlen());
}
VF_SUITE(mem, mem_count, mem_run)

// ---------------------------------------------------------------- suite: exhaustive short strings
enum
{
    E_LEN,   // strlen, strnlen, strdup, strndup, strlwr, strupr
    E_COPY,  // strcpy, strncpy, strlcpy
    E_CHR,   // strchr, strrchr, strchrnul, memchr, memrchr
    E_SINGLE_COUNT,
};
enum
{
    P_CMP, // strcmp, strncmp, strcasecmp, strncasecmp
    P_SEARCH, // strstr, strcasestr
    P_SET, // strspn, strcspn, strpbrk
    P_CAT, // strcat, strncat
    P_COUNT
};
static uint64_t single_count() { return (uint64_t)E_SINGLE_COUNT * uni_single().size(); }
static void single_run(uint64_t idx)
{
    int g = (int)(idx % E_SINGLE_COUNT);
    const string &s = uni_single()[idx / E_SINGLE_COUNT];
    unsigned mis = (unsigned)((idx / E_SINGLE_COUNT) % 8), mis2 = (unsigned)((idx / E_SINGLE_COUNT / 8) % 8);
    uint64_t ev = 0;
    size_t L = s.size();
    switch (g)
    {
    case E_LEN:
        chk_strlen(s, mis), ev++;
        chk_dup(s, false, 0, mis), ev++;
        chk_case(false, s, mis), chk_case(true, s, mis), ev += 2;
        for (size_t m = 0; m <= L + 2; m++)
        {
            chk_strnlen(s, m, mis), ev++;
            chk_dup(s, true, m, mis), ev++;
        }
        for (size_t k = 0; k < N_EXTREME; k++)
        {
            size_t m = EXTREME[(k + idx / E_SINGLE_COUNT) % N_EXTREME]; // rotated: a failure on one bound does not hide the others
            chk_strnlen(s, m, mis), ev++;
            // an implementation that sizes its block from the bound makes the 2^31..2^32 calls cost GiB-sized
            // allocations: those bounds go to every 16th string only, the rest to all
            if (!gib_range(m) || (idx / E_SINGLE_COUNT) % 16 == 0)
                chk_dup(s, true, m, mis), ev++;
        }
        break;
    case E_COPY:
        chk_strcpy(s, mis, mis2), ev++;
        for (size_t n = 0; n <= L + 3; n++)
        {
            chk_strncpy(s, n, mis, mis2), ev++;
            chk_strlcpy(s, n, mis, mis2), ev++;
        }
        if ((idx / E_SINGLE_COUNT) % 16 == 0) // a destination that really has 2^16 bytes
            chk_strlcpy(s, (size_t)1 << 16, mis, mis2), chk_strncpy(s, (size_t)1 << 16, mis, mis2), ev += 2;
        break;
    case E_CHR:
        for (int c : CHARS)
        {
            chk_chr(K_STRCHR, s, c, mis), chk_chr(K_STRRCHR, s, c, mis), chk_chr(K_STRCHRNUL, s, c, mis), ev += 3;
            chk_memchr(false, s, c, mis), chk_memchr(true, s, c, mis), ev += 2;                                 // without the terminator
            chk_memchr(false, string(s.c_str(), L + 1), c, mis), chk_memchr(true, string(s.c_str(), L + 1), c, mis), ev += 2; // with it
            chk_memchr_beyond(string(s.c_str(), L + 1), c, L + 2, mis), ev++;
            chk_memchr_beyond(string(s.c_str(), L + 1), c, EXTREME[(idx + (unsigned)c) % N_EXTREME], mis), ev++;
        }
        break;
    }
    vf::count_bulk(ev, L ? ev : 0);
}
VF_SUITE(short_single, single_count, single_run)

static uint64_t pair_count() { return (uint64_t)P_COUNT * uni_pair().size(); }
static void pair_run(uint64_t idx)
{
    int g = (int)(idx % P_COUNT);
    size_t ai = idx / P_COUNT;
    const std::vector<string> &U = uni_pair();
    const string &a = U[ai];
    uint64_t ev = 0;
    for (size_t bi = 0; bi < U.size(); bi++)
    {
        const string &b = U[bi];
        unsigned am = (unsigned)((ai + bi) % 8), bm = (unsigned)((ai * 3 + bi) % 8);
        switch (g)
        {
        case P_CMP:
            chk_cmp(K_STRCMP, a, b, 0, am, bm), chk_cmp(K_STRCASECMP, a, b, 0, am, bm), ev += 2;
            for (size_t n = 0; n <= std::max(a.size(), b.size()) + 1; n++)
                chk_cmp(K_STRNCMP, a, b, n, am, bm), chk_cmp(K_STRNCASECMP, a, b, n, am, bm), ev += 2;
            for (size_t k = 0; k < 3; k++) // three of the extreme bounds per pair, all of them over the universe
            {
                size_t n = EXTREME[(ai + bi * 3 + k * 3) % N_EXTREME];
                chk_cmp(K_STRNCMP, a, b, n, am, bm), chk_cmp(K_STRNCASECMP, a, b, n, am, bm), ev += 2;
            }
            break;
        case P_SEARCH:
            // haystack = a framed so that the match can sit at the start, in the middle, at the very end
            for (const string &h : {a, a + b, b + a, a + b.substr(0, b.size() ? b.size() - 1 : 0)})
                chk_two(K_STRSTR, h, b, am, bm), chk_two(K_STRCASESTR, h, b, am, bm), ev += 2;
            break;
        case P_SET:
            chk_two(K_STRSPN, a, b, am, bm), chk_two(K_STRCSPN, a, b, am, bm), chk_two(K_STRPBRK, a, b, am, bm), ev += 3;
            chk_two(K_STRSPN, a + b, b, am, bm), chk_two(K_STRCSPN, a + b, b, am, bm), chk_two(K_STRPBRK, a + b, b, am, bm), ev += 3;
            break;
        case P_CAT:
            chk_strcat(a, b, false, 0, bm, am), ev++;
            for (size_t n = 0; n <= b.size() + 2; n++)
                chk_strcat(a, b, true, n, bm, am), ev++;
            chk_strcat(a, b, true, 1000, bm, am), ev++;
            chk_strcat(a, b, true, EXTREME[(ai + bi) % N_EXTREME], bm, am), chk_strcat(a, b, true, EXTREME[(ai + bi + 4) % N_EXTREME], bm, am), ev += 2;
            break;
        }
    }
    vf::count_bulk(ev, ev);
    if (vf::want_sample() && ai == 40)
        vf::sample("short pairs: first=%s against all %zu strings of the pair universe, group %d", q(a).c_str(), U.size(), g);
}
VF_SUITE(short_pairs, pair_count, pair_run)

// ---------------------------------------------------------------- suite: seeded random longer inputs, one routine family per case
enum
{
    R_LEN,
    R_DUP,
    R_CASE,
    R_CPY,
    R_NCPY,
    R_LCPY,
    R_CAT,
    R_NCAT,
    R_CMP,
    R_NCMP,
    R_CASECMP,
    R_NCASECMP,
    R_CHR,
    R_STR,
    R_CASESTR,
    R_SET,
    R_MEMCHR,
    R_MEMCMP,
    R_TOK,
    R_COUNT
};
static size_t rand_maxlen() { return vf::thorough() ? 96 : 44; }
static uint64_t rand_count() { return (uint64_t)R_COUNT * (REDUCED ? 25 : vf::thorough() ? 12000 : 150); }
static void rand_run(uint64_t idx)
{
    int g = (int)(idx % R_COUNT);
    vf::Rng r(vf::seed(), 0xC08B, idx);
    for (int it = 0; it < 40; it++)
    {
        size_t L = r.chance(1, 4) ? r.below(5) : r.below(rand_maxlen() + 1);
        string a = gen(r, L, false);
        string b = relative(r, a);
        unsigned m1 = (unsigned)r.below(8), m2 = (unsigned)r.below(8);
        int c = r.chance(1, 2) && L ? (r.chance(1, 2) ? (int)(uc)a[r.below(L)] : (int)(signed char)a[r.below(L)]) : (int)r.range(-128, 255);
        // n around the interesting lengths
        auto around = [&](size_t x) -> size_t {
            long v = (long)x + r.range(-2, 3);
            return r.chance(1, 10) ? (r.chance(1, 2) ? 0 : x + 100) : (size_t)(v < 0 ? 0 : v);
        };
        // the same, plus the extreme bounds, for the routines that stop at the terminator
        auto bound = [&](size_t x) -> size_t { return r.chance(1, 6) ? EXTREME[r.below(N_EXTREME)] - (r.chance(1, 4) ? r.below(3) : 0) : around(x); };
        uint64_t h = vf::hash_bytes(a.data(), a.size(), vf::hash_bytes(b.data(), b.size(), vf::mix(g, (uint64_t)(c + 1000) * 64 + m1 * 8 + m2)));
        switch (g)
        {
        case R_LEN: chk_strlen(a, m1), chk_strnlen(a, bound(L), m1); break;
        case R_DUP:
        {
            size_t sz = bound(L);
            if (gib_range(sz) && !r.chance(1, 8))
                sz = SIZE_MAX - r.below(3);
            chk_dup(a, false, 0, m1), chk_dup(a, true, sz, m1);
            break;
        }
        case R_CASE: chk_case(false, a, m1), chk_case(true, a, m1); break;
        case R_CPY: chk_strcpy(a, m1, m2); break;
        case R_NCPY: chk_strncpy(a, around(L), m1, m2); break;
        case R_LCPY: chk_strlcpy(a, around(L), m1, m2); break;
        case R_CAT: chk_strcat(b, a, false, 0, m1, m2); break;
        case R_NCAT: chk_strcat(b, a, true, bound(L), m1, m2); break;
        case R_CMP: chk_cmp(K_STRCMP, a, b, 0, m1, m2), chk_cmp(K_STRCMP, b, a, 0, m1, m2); break;
        case R_NCMP: chk_cmp(K_STRNCMP, a, b, bound(std::min(a.size(), b.size())), m1, m2); break;
        case R_CASECMP: chk_cmp(K_STRCASECMP, a, b, 0, m1, m2), chk_cmp(K_STRCASECMP, b, a, 0, m1, m2); break;
        case R_NCASECMP: chk_cmp(K_STRNCASECMP, a, b, bound(std::min(a.size(), b.size())), m1, m2); break;
        case R_CHR: chk_chr(K_STRCHR, a, c, m1), chk_chr(K_STRRCHR, a, c, m1), chk_chr(K_STRCHRNUL, a, c, m1); break;
        case R_STR:
        case R_CASESTR:
        {
            // needle = a piece of the haystack (possibly case-flipped / damaged) or unrelated
            string nd = b.size() > 6 ? b.substr(0, 1 + r.below(6)) : b;
            chk_two(g == R_STR ? K_STRSTR : K_STRCASESTR, a, nd, m1, m2);
            chk_two(g == R_STR ? K_STRSTR : K_STRCASESTR, gen(r, r.below(6), false, 3) + a, nd, m1, m2);
            break;
        }
        case R_SET:
        {
            string set = gen(r, r.below(5), false, (int)r.below(5));
            if (L && r.chance(1, 2))
                set += a[r.below(L)];
            chk_two(K_STRSPN, a, set, m1, m2), chk_two(K_STRCSPN, a, set, m1, m2), chk_two(K_STRPBRK, a, set, m1, m2);
            break;
        }
        case R_MEMCHR:
        {
            string m = gen(r, L, true);
            chk_memchr(false, m, c, m1), chk_memchr(true, m, c, m1);
            chk_memchr_beyond(m, c, bound(L + 1), m1);
            break;
        }
        case R_MEMCMP:
        {
            string x = gen(r, L, true), y = x;
            if (L && r.chance(3, 4))
                y[r.below(L)] ^= (char)(1 << r.below(8));
            chk_memcmp(x, y, m1, m2);
            break;
        }
        case R_TOK:
        {
            string s = gen(r, L, false, r.chance(3, 4) ? 4 : -1);
            std::vector<string> ds;
            int nd = r.chance(1, 3) ? 1 + (int)r.below(3) : 1;
            for (int i = 0; i < nd; i++)
                ds.push_back(r.chance(1, 12) ? "" : gen(r, 1 + r.below(3), false, r.chance(3, 4) ? 4 : 1));
            chk_tok(r.chance(1, 2), s, ds, m1, r.chance(1, 2));
            h = vf::hash_bytes(s.data(), s.size(), vf::hash_bytes(ds[0].data(), ds[0].size(), nd));
            break;
        }
        }
        vf::count_case(h, L > 0);
        if (vf::want_sample() && it == 7 && L > 5)
            vf::sample("random: family %d a=%s b=%s c=%d misalign=%u,%u", g, q(a).c_str(), q(b).c_str(), c, m1, m2);
    }
}
VF_SUITE(random_long, rand_count, rand_run)

// ---------------------------------------------------------------- suite: strtok(_r) over all short strings x delimiter sets
static const string TOKALPHA("a, \x80", 4);
static const std::vector<string> &tok_universe()
{
    static std::vector<string> u = universe(TOKALPHA, REDUCED ? 3 : vf::thorough() ? 6 : 5);
    return u;
}
static uint64_t tok_count() { return tok_universe().size(); }
static void tok_run(uint64_t idx)
{
    const string &s = tok_universe()[idx];
    static const std::vector<std::vector<string>> DSETS = {{","}, {" "}, {", "}, {""}, {",\x80"}, {"a"}, {",", " "}, {" ", ",", "a"}, {"", ","}};
    uint64_t ev = 0;
    for (auto &ds : DSETS)
        for (int re = 0; re < 2; re++)
        {
            chk_tok(re, s, ds, (unsigned)(idx % 8), false);
            chk_tok(re, s, ds, 0, true);
            ev += 2;
        }
    vf::count_bulk(ev, s.empty() ? 0 : ev);
}
VF_SUITE(tok_streams, tok_count, tok_run)

// ---------------------------------------------------------------- suite: igris_is*/to* against the C locale for -1..255
static uint64_t ctype_count() { return 1; }
static void ctype_run(uint64_t)
{
    CL("ctype", "-1..255");
    for (int c = -1; c <= 255; c++)
    {
        auto W = [&] { return fmt("igris ctype for c=%d", c); };
        Wit<decltype(W)> ws(W);
#define CT(name)                                                                                         \
    if (!!igris_##name(c) != !!name(c))                                                                  \
    FAIL("ret:" #name, "igris_" #name "(%d)=%d, C locale says %d", c, igris_##name(c), !!name(c))
        CT(isalnum);
        CT(isalpha);
        CT(isblank);
        CT(isdigit);
        CT(islower);
        CT(isprint);
        CT(isspace);
        CT(isupper);
        CT(isxdigit);
#undef CT
        if (igris_tolower(c) != tolower(c))
            FAIL("ret:tolower", "igris_tolower(%d)=%d, C locale says %d", c, igris_tolower(c), tolower(c));
        if (igris_toupper(c) != toupper(c))
            FAIL("ret:toupper", "igris_toupper(%d)=%d, C locale says %d", c, igris_toupper(c), toupper(c));
        VF_OK("igris_is*/to* == C-locale classification for EOF and every unsigned char value");
    }
    vf::count_bulk(257, 257);
}
VF_SUITE(ctype_all, ctype_count, ctype_run)

extern "C" void vf_setup()
{
    for (const char *c : {
             "memcpy: dst[0,n) == src, returns dst, nothing else written",
             "memcpy: word-copy path taken (both aligned, n >= 4 words)",
             "memmove (separate blocks): dst == src, returns dst, nothing else written",
             "memmove (one block, every offset): result == copy via temporary, rest of block untouched",
             "memmove: overlapping, dst above src == copy via temporary",
             "memmove: overlapping, dst below src == copy via temporary",
             "memset: dst[0,n) == (unsigned char)c, returns dst, nothing else written",
             "memcmp: sign == unsigned byte-wise comparison of the first n bytes",
             "memchr: first occurrence within n bytes or NULL",
             "memrchr: last occurrence within n bytes or NULL; n == 0 reads nothing",
             "strlen == offset of the terminator",
             "strnlen == min(len, maxlen), examines at most maxlen bytes",
             "strcpy: dst == src incl. terminator, returns dst, nothing else written",
             "strncpy: exactly n bytes written = prefix of src + NUL padding, reads at most n bytes of src",
             "strncpy: pads with NULs up to n",
             "strlcpy: min(len,size-1) chars + NUL, returns strlen(src), size 0 writes nothing",
             "strcat: dst + src + NUL, returns dst, nothing else written",
             "strncat: dst + at most n chars of src + NUL, reads at most n bytes of src",
             "strcmp: sign == unsigned char comparison up to the terminator",
             "strncmp: sign == comparison of at most n chars; n == 0 -> 0, reads nothing",
             "strcasecmp: sign == comparison of the lower-cased strings (C locale)",
             "strncasecmp: sign == comparison of at most n lower-cased chars",
             "strchr: first occurrence of (char)c, terminator included, else NULL",
             "strrchr: last occurrence of (char)c, terminator included, else NULL",
             "strchrnul: first occurrence of (char)c or the terminator",
             "strstr: first occurrence of needle (empty needle -> haystack) else NULL",
             "strcasestr: first case-insensitive occurrence else NULL",
             "strspn: length of the initial segment made of accept chars",
             "strcspn: length of the initial segment free of reject chars",
             "strpbrk: first char of s that is in accept else NULL",
             "strdup: new malloc block equal to s incl. terminator",
             "strnlen: extreme maxlen (2^16 .. SIZE_MAX) on a terminated string == len",
             "strncmp: extreme n (2^16 .. SIZE_MAX) == strcmp on terminated strings",
             "strncasecmp: extreme n (2^16 .. SIZE_MAX) == strcasecmp on terminated strings",
             "strncat: extreme n (2^16 .. SIZE_MAX) appends the whole terminated src",
             "strndup: extreme size (2^16 .. SIZE_MAX) duplicates the whole terminated string, non-NULL",
             "memchr: n beyond the object, match inside -> first occurrence, nothing behind it read",
             "strndup: new block with min(len,size) chars + NUL, reads at most size bytes of s",
             "strlwr: A-Z -> a-z in place, everything else unchanged, returns str",
             "strupr: a-z -> A-Z in place, everything else unchanged, returns str",
             "strtok(_r): token start and terminating NUL as defined",
             "strtok(_r): NULL again after the last token reached the end of the string",
             "strtok: whole stream == model (tokens, inserted NULs, final NULL)",
             "strtok_r: whole stream == model (tokens, inserted NULs, final NULL)",
             "igris_is*/to* == C-locale classification for EOF and every unsigned char value",
         })
        vf::require(c);
}
