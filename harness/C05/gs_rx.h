// gs_rx.h — uniform adapter over the three receivers igris ships.  Identical copy in harness/C04 and harness/C05.
#pragma once
#include "gs_ref.h"
#include <cstring>
#include <new>
#include <igris/protocols/gstuff.h>

extern "C"
{
    int lg_sizeof(void);
    void lg_init(void *a, void *buf, int cap);
    void lg_setbuf(void *a, void *buf, int cap);
    int lg_newchar(void *a, unsigned char c);
    int lg_state(void *a);
    unsigned lg_len(void *a);
    const char *lg_line(void *a);
    int lg_encode(char *data, int size, char *out);
    unsigned char lg_const(int which);
}

namespace gs
{
    static inline gstuff_context ctx_of(Codec k)
    {
        if (k == CUSTOM)
        {
            const Alpha &a = ALPHA[CUSTOM];
            gstuff_context c;
            c.GSTUFF_START = (char)a.START;
            c.GSTUFF_STOP = (char)a.STOP;
            c.GSTUFF_STUB = (char)a.STUB;
            c.GSTUFF_STUB_START = (char)a.C_START;
            c.GSTUFF_STUB_STOP = (char)a.C_STOP;
            c.GSTUFF_STUB_STUB = (char)a.C_STUB;
            return c;
        }
        return k == V0 ? gstuff_context_v0() : gstuff_context();
    }

    // Where the gstuff_context handed to the receiver's constructor lives.  The receiver must keep decoding with
    // the alphabet it was constructed with whatever happens to that object afterwards (it is documented to take
    // the context by value).  Dangling uses show up under ASan (heap-use-after-free, stack-use-after-return).
    enum RxSrc
    {
        SRC_OWN = 0,           // a context that lives exactly as long as the receiver
        SRC_TEMPORARY = 1,     // a by-value temporary in the constructor call
        SRC_FACTORY_LOCAL = 2, // a local variable of a factory function that has returned
        SRC_HEAP_FREED = 3,    // a heap-allocated context that is deleted right after construction
        SRC_REASSIGNED = 4,    // a variable that is re-assigned to another alphabet after construction
        NSRC = 5
    };
    static const char *const SRC_NAME[NSRC] = {"own", "temporary", "factory-local", "heap-freed", "reassigned"};

    __attribute__((noinline)) static void scribble_stack()
    {
        volatile unsigned char junk[768];
        for (size_t i = 0; i < sizeof junk; i++)
            junk[i] = 0x5E;
    }
    __attribute__((noinline)) static void construct_from_factory_local(void *where, Codec k)
    {
        gstuff_context local = ctx_of(k);
        new (where) gstuff_autorecv(local);
    }
    __attribute__((noinline)) static void construct_from_temporary(void *where, Codec k) { new (where) gstuff_autorecv(ctx_of(k)); }

    // No dependency on the private layout of gstuff_autorecv and none on its assignability: the object lives in raw
    // storage and is re-created with destroy + placement-new.
    struct Rx
    {
        Codec k;
        int src;
        gstuff_context own_ctx;
        gstuff_context alias_ctx;
        alignas(gstuff_autorecv) unsigned char store[sizeof(gstuff_autorecv)];
        bool built = false;
        alignas(16) unsigned char lg[96];
        // gstuff_autorecv(uint8_t*, int, gstuff_context) is declared but defined nowhere: construct + init
        explicit Rx(Codec k_, int src_ = SRC_OWN) : k(k_), src(src_)
        {
            memset(lg, 0, sizeof lg);
            build();
        }
        ~Rx() { destroy(); }
        Rx(const Rx &) = delete;
        Rx &operator=(const Rx &) = delete;
        gstuff_autorecv &cpp() { return *std::launder(reinterpret_cast<gstuff_autorecv *>(store)); }
        void destroy()
        {
            if (built)
                cpp().~gstuff_autorecv();
            built = false;
        }
        void build()
        {
            if (k == LEGACY)
                return;
            switch (src)
            {
            case SRC_TEMPORARY:
                construct_from_temporary(store, k);
                break;
            case SRC_FACTORY_LOCAL:
                construct_from_factory_local(store, k);
                break;
            case SRC_HEAP_FREED:
            {
                gstuff_context *h = new gstuff_context(ctx_of(k));
                new (store) gstuff_autorecv(*h);
                delete h;
                break;
            }
            case SRC_REASSIGNED:
                alias_ctx = ctx_of(k);
                new (store) gstuff_autorecv(alias_ctx);
                alias_ctx = ctx_of(k == V1 ? V0 : V1);
                break;
            default:
                own_ctx = ctx_of(k);
                new (store) gstuff_autorecv(own_ctx);
                break;
            }
            built = true;
            scribble_stack();
        }
        void init(uint8_t *buf, int cap)
        {
            if (k == LEGACY)
                lg_init(lg, buf, cap);
            else
                cpp().init(buf, cap);
        }
        // the same receiver object used for the next packet with another buffer (state as the last packet left it;
        // the legacy object was zero-filled once, in the constructor)
        void reinit(uint8_t *buf, int cap)
        {
            if (k == LEGACY)
                lg_setbuf(lg, buf, cap);
            else
                cpp().init(buf, cap);
        }
        // buffer hand-over through the setbuf entry points
        void setbuf(uint8_t *buf, int cap)
        {
            if (k == LEGACY)
                lg_setbuf(lg, buf, cap);
            else
                cpp().setbuf(buf, cap);
        }
        // the same storage re-used for a receiver of another alphabet (destroy + construct; no operator= needed)
        void rebind(Codec k2)
        {
            destroy();
            k = k2;
            build();
        }
        int put(uint8_t c)
        {
            if (k == LEGACY)
                return lg_newchar(lg, c);
            int s = cpp().newchar((char)c);
            switch (s)
            {
            case GSTUFF_CONTINUE: return ST_CONTINUE;
            case GSTUFF_NEWPACKAGE: return ST_NEW;
            case GSTUFF_FORCE_RESTART: return ST_RESTART;
            case GSTUFF_GARBAGE: return ST_GARBAGE;
            case GSTUFF_CRC_ERROR: return ST_CRC;
            case GSTUFF_OVERFLOW: return ST_OVERFLOW;
            case GSTUFF_STUFFING_ERROR: return ST_STUFF;
            case GSTUFF_ALGORITHM_ERROR: return ST_ALGO;
            }
            return ST_UNKNOWN;
        }
        size_t size() { return k == LEGACY ? lg_len(lg) : cpp().size(); }
        const uint8_t *line() { return (const uint8_t *)(k == LEGACY ? lg_line(lg) : cpp().cstr()); }
        // bytes of the *packet* at NEWPACKAGE: the legacy receiver keeps the CRC byte in its line
        size_t content_size() { return k == LEGACY ? (size() ? size() - 1 : 0) : size(); }
    };
} // namespace gs
