// C05 — gstuff receivers on arbitrary byte streams.
// The real receivers (configurable with both alphabets, legacy C) are fed hostile streams byte by byte into
// exactly-sized / guard-surrounded heap buffers under ASan+UBSan.  A shadow decoder that looks only at the RAW
// stream (never at the automaton) decides, after every byte and once more over the whole run:
//   (a) size() <= cap-1 always, nothing outside the buffer is touched
//   (b) every NEWPACKAGE delivers exactly unescape(raw bytes since the last start marker) minus a matching CRC-8
//   (c) a well-formed frame that does not fit is not delivered and yields OVERFLOW before its stop marker
//   (d) well-formed fitting frames are delivered: every one (START != STOP) / from the second of a run at the
//       latest and the first on a fresh receiver (shared delimiter)
// Start-marker definitions: DESIGN §3a C05.  Status codes other than NEWPACKAGE/OVERFLOW are only counted.
#define VF_MAIN
#include "vf.h"
#include "guard.h"
#include "gs_ref.h"
#include "gs_rx.h"
#include <algorithm>
#include <climits>
#include <memory>
#include <string>

using namespace gs;
// GS_REDUCED: a second build of the same harness (units.json: -funsigned-char -DGS_REDUCED) with a reduced workload,
// so that code whose meaning depends on the signedness of plain char (ARM / AArch64 / PowerPC ABIs) is exercised too.
#ifdef GS_REDUCED
#define GS_N(quick, thorough_, reduced) (reduced)
#else
#define GS_N(quick, thorough_, reduced) (vf::thorough() ? (thorough_) : (quick))
#endif
typedef std::vector<uint8_t> Bytes;
static inline bool same(const uint8_t *a, const uint8_t *b, size_t n) { return n == 0 || memcmp(a, b, n) == 0; }

// ---------------------------------------------------------------- coverage counters local to the worker, flushed per case
static uint64_t g_status[NCODEC_ALL][9];
// automaton coverage from PUBLIC observations only: (previous status, class of the byte, status) triples
static bool g_trans_seen[NCODEC_ALL][10][8][9];
static uint64_t g_src[NSRC];
static int byte_class(const Alpha &a, uint8_t c)
{
    if (c == a.START)
        return 0;
    if (c == a.STOP)
        return 1;
    if (c == a.STUB)
        return 2;
    if (c == a.C_START)
        return 3;
    if (c == a.C_STOP)
        return 4;
    if (c == a.C_STUB)
        return 5;
    return 6;
}
static void flush_cov()
{
    char nm[80];
    for (int k = 0; k < NCODEC_ALL; k++)
    {
        for (int s = 0; s < 9; s++)
            if (g_status[k][s])
            {
                snprintf(nm, sizeof nm, "status:%s:%s", CODEC_NAME[k], st_name(slot_st(s)));
                vf::count(nm, g_status[k][s]);
                g_status[k][s] = 0;
            }
    }
    for (int i = 0; i < NSRC; i++)
        if (g_src[i])
        {
            snprintf(nm, sizeof nm, "receiver context source:%s", SRC_NAME[i]);
            vf::count(nm, g_src[i]);
            g_src[i] = 0;
        }
}

// ---------------------------------------------------------------- one run of one receiver over one stream
struct Run
{
    Codec k;
    int cap;
    const Bytes *s;
    std::vector<int8_t> st; // normalised status per stream byte
};
static std::string wit(const Run &r, size_t upto)
{
    size_t n = r.s->size();
    size_t from = upto > 60 ? upto - 60 : 0;
    std::string stt;
    for (size_t i = from; i < r.st.size() && i <= upto; i++)
    {
        char b[8];
        snprintf(b, sizeof b, "%d,", r.st[i]);
        stt += b;
    }
    std::string alpha;
    if (r.k == CUSTOM)
    {
        const Alpha &a = ALPHA[CUSTOM];
        const uint8_t v[6] = {a.START, a.STOP, a.STUB, a.C_START, a.C_STOP, a.C_STUB};
        alpha = " alphabet(START,STOP,STUB,codes)=" + vf::hex(v, 6);
    }
    return "codec=" + std::string(CODEC_NAME[r.k]) + alpha + " cap=" + std::to_string(r.cap) + " stream_len=" + std::to_string(n) + " at=" +
           std::to_string(upto) + " stream[" + std::to_string(from) + "..]=" + vf::hex(r.s->data() + from, std::min(n, upto + 1) - from, 80) +
           " status[" + std::to_string(from) + "..]=" + stt;
}
static std::string key(const Run &r, const char *clause, const char *what)
{
    return std::string(key_prefix(r.k)) + "C05:" + clause + ":" + CODEC_NAME[r.k] + ":" + what;
}

// index of the start marker for a packet reported at stream index i (DESIGN §3a); -2 = there is none
static long start_marker_before(const Run &r, size_t i)
{
    const Alpha &a = ALPHA[r.k];
    const Bytes &s = *r.s;
    for (long j = (long)i - 1; j >= 0; j--)
        if (s[j] == a.START) // v0 / legacy: START is the one shared delimiter
            return j;
    return r.k == LEGACY ? -1 : -2; // the legacy receiver's leading delimiter is optional: initialisation point
}

// receive buffer: pattern-guarded region inside one heap block, or an exact block (ASan right behind / in front)
struct RxBuf
{
    std::unique_ptr<vf::Region> reg;
    vf::Exact ex;
    uint8_t *p = nullptr;
    void make(int cap, unsigned placement)
    {
        if (placement % 3 == 0)
        {
            reg.reset(new vf::Region((size_t)cap, 16, 16, (unsigned char)(0x5a + placement)));
            p = reg->win();
        }
        else
        {
            ex.init(nullptr, (size_t)cap, placement % 3 == 2 ? 3 : 0, placement % 3 == 2);
            p = ex.p;
        }
    }
    void release() // freed: a stale pointer kept by the receiver hits ASan
    {
        reg.reset();
        ex.release();
        p = nullptr;
    }
};
// feed *r.s to the receiver (which was just given `b`, capacity r.cap); clauses (a) and (b) after every byte
static void feed(Rx &rx, RxBuf &b, Run &r)
{
    const Codec k = r.k;
    const int cap = r.cap;
    const Bytes &s = *r.s;
    const Alpha &a = ALPHA[k];
    vf::Region *reg = b.reg.get();
    r.st.clear();
    r.st.reserve(s.size());
    Bytes u;
    int prev = 9; // no status yet
    for (size_t i = 0; i < s.size(); i++)
    {
        int st = rx.put(s[i]);
        r.st.push_back((int8_t)st);
        g_status[k][st_slot(st)]++;
        bool &seen = g_trans_seen[k][prev][byte_class(a, s[i])][st_slot(st)];
        if (!seen)
        {
            seen = true;
            vf::state(vf::mix(vf::mix(k, prev), vf::mix(byte_class(a, s[i]), st_slot(st))));
        }
        prev = st_slot(st);
        // (a)
        size_t sz = rx.size();
        if (sz > (size_t)cap - 1)
            vf::fail(key(r, "a", "size-exceeds-cap-1").c_str(), "size()=%zu > cap-1; %s", sz, wit(r, i).c_str());
        if (reg)
        {
            long off = reg->verify(0, (size_t)cap);
            if (off != vf::Region::LONG_MIN_SENTINEL)
                vf::fail(key(r, "a", "guard-bytes-modified").c_str(), "byte at offset %ld relative to the buffer was modified; %s", off, wit(r, i).c_str());
        }
        VF_OK("(a) size() <= cap-1 and guards intact after the byte");
        if (st == ST_UNKNOWN)
            vf::fail(key(r, "status", "unknown-status-code").c_str(), "receiver returned a value outside its documented set; %s", wit(r, i).c_str());
        // (b)
        if (st == ST_NEW)
        {
            size_t cs = rx.content_size();
            Bytes got(rx.line(), rx.line() + rx.size()); // cstr() also writes the terminator at buf[size()] -> inside the buffer or ASan
            long sm = start_marker_before(r, i);
            if (sm == -2)
                vf::fail(key(r, "b", "delivered-without-start-marker").c_str(), "NEWPACKAGE (%zu bytes) but no start marker precedes; %s", cs,
                         wit(r, i).c_str());
            int why = 0;
            if (!unescape(a, s.data() + sm + 1, i - (size_t)(sm + 1), u, &why))
                vf::fail(key(r, "b", why == 2 ? "delivered-after-invalid-escape" : why == 3 ? "delivered-after-dangling-stub" : "delivered-across-raw-marker").c_str(),
                         "NEWPACKAGE, but the raw bytes since the start marker at %ld are not a valid escape sequence; delivered=%s; %s", sm,
                         vf::hex(got.data(), got.size(), 40).c_str(), wit(r, i).c_str());
            if (u.empty())
                vf::fail(key(r, "b", "delivered-empty-body").c_str(), "NEWPACKAGE with no byte since the start marker at %ld; %s", sm, wit(r, i).c_str());
            if (crc8(u.data(), u.size()) != 0)
                vf::fail(key(r, "b", "delivered-with-crc-mismatch").c_str(), "unescaped bytes since start marker %ld = %s have CRC residue %02x; delivered=%s; %s", sm,
                         vf::hex(u.data(), u.size(), 40).c_str(), crc8(u.data(), u.size()), vf::hex(got.data(), got.size(), 40).c_str(), wit(r, i).c_str());
            if (u.size() > (size_t)cap - 1)
                vf::fail(key(r, "b", "delivered-frame-that-does-not-fit").c_str(), "|U|=%zu > cap-1; %s", u.size(), wit(r, i).c_str());
            if (cs != u.size() - 1 || !same(got.data(), u.data(), cs))
                vf::fail(key(r, "b", "delivered-bytes-differ").c_str(), "delivered %zu bytes %s, expected U minus its CRC = %s (start marker at %ld); %s", cs,
                         vf::hex(got.data(), cs, 40).c_str(), vf::hex(u.data(), u.size() - 1, 40).c_str(), sm, wit(r, i).c_str());
            if (k == LEGACY && (got.size() != u.size() || got.back() != u.back()))
                vf::fail(key(r, "b", "legacy-line-not-payload-plus-crc").c_str(), "legacy line %s != U %s; %s", vf::hex(got.data(), got.size(), 40).c_str(),
                         vf::hex(u.data(), u.size(), 40).c_str(), wit(r, i).c_str());
            VF_OK("(b) NEWPACKAGE == unescape(since last start marker) minus matching CRC-8, fits");
            if (k == V1)
                VF_OK("(b) checked: v1");
            else if (k == V0)
                VF_OK("(b) checked: v0");
            else if (k == LEGACY)
                VF_OK("(b) checked: legacy");
            else
                VF_OK("custom-alphabet: (b) checked");
        }
    }
    (void)rx.line(); // terminator write at end of stream as well
    if (reg && !reg->intact(0, (size_t)cap))
        vf::fail(key(r, "a", "guard-bytes-modified").c_str(), "guard modified by cstr() at end of stream; %s", wit(r, s.size() ? s.size() - 1 : 0).c_str());
}
static void run_stream(Codec k, int cap, const Bytes &s, unsigned placement, Run &r)
{
    r.k = k;
    r.cap = cap;
    r.s = &s;
    int src = k == LEGACY ? SRC_OWN : (int)((placement / 3) % NSRC); // where the constructor's context lives: gs_rx.h
    if (vf::verbose())
        printf("  codec=%s cap=%d placement=%u ctx-source=%s stream=%s\n", CODEC_NAME[k], cap, placement % 3, SRC_NAME[src],
               vf::hex(s.data(), s.size(), 5000).c_str());
    RxBuf b;
    b.make(cap, placement);
    Rx rx(k, src);
    if (k != LEGACY)
        g_src[src]++;
    rx.init(b.p, cap);
    feed(rx, b, r);
}

// ---------------------------------------------------------------- whole-run audit: clauses (c) and (d)
struct Frame
{
    size_t s, e; // indices of the two delimiters
    size_t ulen; // unescaped body length (payload + crc)
};
// all well-formed frames in the raw stream (a well-formed frame: START body STOP, body a valid escape sequence of
// >= 1 byte whose CRC-8 residue is 0 -- whether written by the generator or arising by chance)
static void find_frames(Codec k, const Bytes &s, std::vector<Frame> &out)
{
    const Alpha &a = ALPHA[k];
    out.clear();
    Bytes u;
    long last_start = -1;
    for (size_t i = 0; i < s.size(); i++)
    {
        if (s[i] == a.STOP && last_start >= 0 && (size_t)last_start + 1 < i)
        {
            if (unescape(a, s.data() + last_start + 1, i - (size_t)last_start - 1, u) && !u.empty() && crc8(u.data(), u.size()) == 0)
                out.push_back(Frame{(size_t)last_start, i, u.size()});
        }
        if (s[i] == a.START)
            last_start = (long)i; // shared delimiter: a stop is also the next possible start (overlap filtered below)
    }
    if (a.shared())
    {
        // frames must not share a delimiter: AC b1 AC b2 AC is ambiguous; keep a frame only if its start delimiter
        // is not the stop delimiter of the previously kept frame
        std::vector<Frame> f2;
        for (auto &f : out)
            if (f2.empty() || f2.back().e != f.s)
                f2.push_back(f);
        out.swap(f2);
    }
}
static void audit(const Run &r)
{
    const Bytes &s = *r.s;
    const Alpha &a = ALPHA[r.k];
    static std::vector<Frame> fr;
    find_frames(r.k, s, fr);
    for (size_t i = 0; i < fr.size(); i++)
    {
        const Frame &f = fr[i];
        bool fits = f.ulen <= (size_t)r.cap - 1;
        // is the receiver obliged to be in phase for this frame?
        bool obliged;
        const char *ctx;
        if (!a.shared())
        {
            obliged = true; // START != STOP: from the first frame after any prefix
            ctx = f.s == 0 ? "fresh" : "after-prefix";
        }
        else if (f.s == 0)
        {
            obliged = true; // fresh receiver (C04 within a stream)
            ctx = "fresh";
        }
        else
        {
            obliged = i > 0 && fr[i - 1].e + 1 == f.s; // directly follows a well-formed frame: "from the second at the latest"
            ctx = "second-of-run";
        }
        if (!obliged)
        {
            VF_OK("well-formed frame in an unobliged phase (shared delimiter, first after garbage)");
            continue;
        }
        if (fits)
        {
            if (r.st[f.e] != ST_NEW)
                vf::fail(key(r, "d", (std::string("well-formed-frame-not-delivered:") + ctx).c_str()).c_str(),
                         "frame at [%zu..%zu] (|U|=%zu <= cap-1) is well-formed but status at its stop marker is %s; %s", f.s, f.e, f.ulen,
                         st_name(r.st[f.e]), wit(r, f.e).c_str());
            // content was verified by (b) at that index
            VF_OK("(d) well-formed fitting frame delivered at its stop marker");
            if (f.s > 0)
            {
                if (r.k == V1)
                    VF_OK("(d) after a non-empty prefix: v1");
                else if (r.k == V0)
                    VF_OK("(d) after a non-empty prefix: v0");
                else if (r.k == LEGACY)
                    VF_OK("(d) after a non-empty prefix: legacy");
                else
                    VF_OK("custom-alphabet: (d) after a non-empty prefix");
            }
        }
        else
        {
            if (r.st[f.e] == ST_NEW)
                vf::fail(key(r, "c", "oversized-frame-delivered").c_str(), "frame at [%zu..%zu] |U|=%zu > cap-1 delivered; %s", f.s, f.e, f.ulen, wit(r, f.e).c_str());
            bool ovf = false;
            for (size_t j = f.s + 1; j < f.e; j++)
                ovf |= r.st[j] == ST_OVERFLOW;
            if (!ovf)
                vf::fail(key(r, "c", (std::string("no-overflow-for-oversized-frame:") + ctx).c_str()).c_str(),
                         "frame at [%zu..%zu] |U|=%zu > cap-1: no OVERFLOW status before its stop marker; %s", f.s, f.e, f.ulen, wit(r, f.e).c_str());
            VF_OK("(c) oversized well-formed frame: OVERFLOW before its stop marker, not delivered");
            if (r.k == V1)
                VF_OK("(c) checked: v1");
            else if (r.k == V0)
                VF_OK("(c) checked: v0");
            else if (r.k == LEGACY)
                VF_OK("(c) checked: legacy");
            else
                VF_OK("custom-alphabet: (c) checked");
        }
    }
}

static void run_and_audit(Codec k, int cap, const Bytes &s, unsigned placement)
{
    static Run r;
    char c[64];
    snprintf(c, sizeof c, "%s", CODEC_NAME[k]);
    vf::cls(c);
    run_stream(k, cap, s, placement, r);
    audit(r);
}

// ---------------------------------------------------------------- workload pieces
static Bytes stream_alphabet(Codec k)
{
    const Alpha &a = ALPHA[k];
    const uint8_t ca = crc8((const uint8_t *)"a", 1);
    Bytes v;
    for (uint8_t c : {a.START, a.STOP, a.STUB, a.C_START, a.C_STOP, a.C_STUB, (uint8_t)'a', (uint8_t)'b', (uint8_t)0xFF /* crc of the empty payload */, ca})
        if (std::find(v.begin(), v.end(), c) == v.end())
            v.push_back(c);
    return v; // 10 symbols for v1, 8 for the shared-delimiter codecs
}
static Bytes random_payload(vf::Rng &r, Codec k, size_t n)
{
    const Alpha &a = ALPHA[k];
    const uint8_t hot[8] = {a.START, a.STOP, a.STUB, a.C_START, a.C_STOP, a.C_STUB, 0x00, 0xFF};
    Bytes p(n);
    int mode = (int)r.below(3);
    for (auto &b : p)
        b = mode == 0 ? (uint8_t)r.next() : mode == 1 ? (r.chance(1, 3) ? hot[r.below(8)] : (uint8_t)('a' + r.below(26))) : hot[r.below(8)];
    return p;
}
static void append(Bytes &s, const Bytes &x) { s.insert(s.end(), x.begin(), x.end()); }

// (1) every stream of length <= L over the alphabet x capacities {2,3,4,8} x 3 receivers
static const int CAPS[4] = {2, 3, 4, 8};
static int exh_len(Codec k)
{
    if (k == V1)
        return GS_N(6, 8, 4); // 10 symbols
    return GS_N(7, 8, 5);     // 8 symbols
}
static uint64_t exh_cases_of(Codec k)
{
    uint64_t A = stream_alphabet(k).size();
    return 4 * (A * A + 1);
}
static uint64_t exh_count() { return exh_cases_of(V1) + exh_cases_of(V0) + exh_cases_of(LEGACY); }
static void exh_run(uint64_t idx)
{
    Codec k = V1;
    while (idx >= exh_cases_of(k))
    {
        idx -= exh_cases_of(k);
        k = (Codec)(k + 1);
    }
    Bytes al = stream_alphabet(k);
    uint64_t A = al.size();
    int cap = CAPS[idx % 4];
    uint64_t pfx = idx / 4;
    int L = exh_len(k);
    uint64_t n = 0, nt = 0;
    Bytes s;
    if (pfx == A * A)
    {
        s.clear();
        run_and_audit(k, cap, s, 0);
        for (uint8_t c : al)
        {
            s.assign(1, c);
            run_and_audit(k, cap, s, c);
        }
        n = 1 + A;
    }
    else
        for (int len = 2; len <= L; len++)
        {
            uint64_t cnt = 1;
            for (int i = 2; i < len; i++)
                cnt *= A;
            for (uint64_t t = 0; t < cnt; t++)
            {
                s.resize(len);
                s[0] = al[pfx / A];
                s[1] = al[pfx % A];
                uint64_t x = t;
                for (int i = 2; i < len; i++, x /= A)
                    s[i] = al[x % A];
                run_and_audit(k, cap, s, (unsigned)(t + pfx));
            }
            n += cnt;
            nt += cnt;
        }
    vf::count_bulk(n, nt);
    VF_OK("enumerated stream batch");
    if (pfx == 3 && cap == 4)
        vf::sample("exhaustive: codec=%s cap=4 all streams <= %d bytes over %s starting %02x %02x", CODEC_NAME[k], L, vf::hex(al.data(), al.size()).c_str(),
                   al[pfx / A], al[pfx % A]);
    flush_cov();
}
VF_SUITE(exhaustive, exh_count, exh_run)

// (2) fault injection into valid traffic of 3..5 frames: every position x every fault
static uint64_t fault_count() { return NCODEC * GS_N(150, 2500, 12); }
static void fault_body(Codec k, vf::Rng &r, uint64_t idx)
{
    const Alpha &a = ALPHA[k];
    (void)idx;
    int cap = r.chance(1, 2) ? CAPS[r.below(4)] : r.range(2, 24);
    int nfr = r.range(3, 5);
    Bytes base;
    for (int i = 0; i < nfr; i++)
    {
        size_t n = r.below((uint64_t)cap - 1); // payload 0..cap-2  -> |U| <= cap-1: fits
        append(base, ref_frame(a, random_payload(r, k, n)));
    }
    const uint8_t marks[6] = {a.START, a.STOP, a.STUB, a.C_START, a.C_STOP, a.C_STUB};
    unsigned pl = (unsigned)r.next();
    uint64_t cases = 0;
    run_and_audit(k, cap, base, pl);
    Bytes s;
    for (size_t pos = 0; pos <= base.size(); pos++)
    {
        if (pos < base.size())
        {
            s = base; // drop
            s.erase(s.begin() + pos);
            run_and_audit(k, cap, s, pl + 1);
            s = base; // duplicate
            s.insert(s.begin() + pos, base[pos]);
            run_and_audit(k, cap, s, pl + 2);
            for (uint8_t m : marks) // flip to each marker / code
                if (m != base[pos])
                {
                    s = base;
                    s[pos] = m;
                    run_and_audit(k, cap, s, pl);
                    cases++;
                }
            s = base; // flip one random bit
            s[pos] ^= (uint8_t)(1u << r.below(8));
            run_and_audit(k, cap, s, pl + 1);
            cases += 3;
        }
        for (uint8_t m : marks) // insert each marker / code
        {
            s = base;
            s.insert(s.begin() + pos, m);
            run_and_audit(k, cap, s, pl + 2);
            cases++;
        }
        s.assign(base.begin(), base.begin() + pos); // truncate ...
        run_and_audit(k, cap, s, pl);
        append(s, base); // ... and traffic resumes
        run_and_audit(k, cap, s, pl + 1);
        cases += 2;
    }
    VF_OKN("fault-injected stream (drop/dup/flip/insert/truncate at one position)", cases);
    vf::count_case(vf::hash_bytes(base.data(), base.size(), vf::mix(k, cap)), true);
    if (vf::want_sample())
        vf::sample("faults: codec=%s cap=%d base traffic (%d frames) = %s, every position x {drop,dup,flip->6 markers,bitflip,insert 6 markers,truncate,truncate+resume}",
                   CODEC_NAME[k], cap, nfr, vf::hex(base.data(), base.size(), 60).c_str());
    flush_cov();
}
static void fault_run(uint64_t idx)
{
    vf::Rng r(vf::seed(), 0xC05F, idx);
    fault_body((Codec)(idx % NCODEC), r, idx);
}
VF_SUITE(faults, fault_count, fault_run)

// (3) noise: token-grammar garbage up to 4 KiB, then three well-formed fitting frames
static void garbage_token(vf::Rng &r, Codec k, int cap, Bytes &s)
{
    const Alpha &a = ALPHA[k];
    Bytes al = stream_alphabet(k);
    switch (r.below(13))
    {
    case 0: // uniform noise
        for (int n = r.range(1, 40); n--;)
            s.push_back((uint8_t)r.next());
        break;
    case 1: // marker soup
        for (int n = r.range(1, 8); n--;)
            s.push_back(al[r.below(al.size())]);
        break;
    case 2: // fitting frame
        append(s, ref_frame(a, random_payload(r, k, r.below((uint64_t)cap - 1))));
        break;
    case 3: // oversized frame, |U| = cap .. cap+3
        append(s, ref_frame(a, random_payload(r, k, (size_t)cap - 1 + r.below(4))));
        break;
    case 4: // frame body without its start marker
    {
        Bytes f = ref_frame(a, random_payload(r, k, r.below((uint64_t)cap - 1)));
        s.insert(s.end(), f.begin() + 1, f.end());
        break;
    }
    case 5: // frame without its stop marker
    {
        Bytes f = ref_frame(a, random_payload(r, k, r.below((uint64_t)cap + 2)));
        s.insert(s.end(), f.begin(), f.end() - 1);
        break;
    }
    case 6: // truncated frame
    {
        Bytes f = ref_frame(a, random_payload(r, k, r.below((uint64_t)cap + 2)));
        s.insert(s.end(), f.begin(), f.begin() + r.below(f.size()));
        break;
    }
    case 7: // frame with one corrupted byte
    {
        Bytes f = ref_frame(a, random_payload(r, k, r.below((uint64_t)cap - 1)));
        f[r.below(f.size())] ^= (uint8_t)(1 + r.below(255));
        append(s, f);
        break;
    }
    case 8: // escape followed by anything
        s.push_back(a.STUB);
        s.push_back(r.chance(1, 2) ? al[r.below(al.size())] : (uint8_t)r.next());
        break;
    case 9: // start, invalid escape, then a frame body: the body must not be accepted as a packet of its own
    {
        s.push_back(a.START);
        if (r.chance(1, 2))
            s.push_back((uint8_t)('a' + r.below(3)));
        s.push_back(a.STUB);
        s.push_back((uint8_t)('a' + r.below(26)));
        Bytes f = ref_frame(a, random_payload(r, k, r.below((uint64_t)cap - 1)));
        s.insert(s.end(), f.begin() + 1, f.end());
        break;
    }
    case 10: // long run of ordinary bytes (overflows any line in progress), then a frame body
    {
        for (int n = r.range(cap - 1, cap + 4); n-- > 0;)
            s.push_back((uint8_t)('a' + r.below(26)));
        if (r.chance(1, 2))
        {
            Bytes f = ref_frame(a, random_payload(r, k, r.below((uint64_t)cap - 1)));
            s.insert(s.end(), f.begin() + 1, f.end());
        }
        break;
    }
    case 11: // lone delimiters
        for (int n = r.range(1, 3); n--;)
            s.push_back(r.chance(1, 2) ? a.START : a.STOP);
        break;
    case 12: // oversized frame whose tail (after the overflow point) is itself a frame body
    {
        Bytes tail = ref_body(a, random_payload(r, k, r.below((uint64_t)cap - 1)));
        s.push_back(a.START);
        for (int n = cap - 1; n-- > 0;)
            s.push_back((uint8_t)('a' + r.below(26)));
        if (r.chance(1, 2))
            s.push_back((uint8_t)'x'); // the byte that triggers the overflow
        append(s, tail);
        s.push_back(a.STOP);
        break;
    }
    }
}
static uint64_t noise_count() { return NCODEC * GS_N(6000, 60000, 500); }
static void noise_body(Codec k, vf::Rng &r, uint64_t idx)
{
    const Alpha &a = ALPHA[k];
    (void)idx;
    int cap = r.chance(1, 3) ? CAPS[r.below(4)] : r.chance(1, 8) ? r.range(65, 300) : r.range(2, 64);
    size_t target = r.chance(1, 10) ? (size_t)r.range(1000, 4096) : (size_t)r.range(0, 300);
    Bytes s;
    while (s.size() < target)
        garbage_token(r, k, cap, s);
    size_t glen = s.size();
    for (int i = 0; i < 3; i++)
        append(s, ref_frame(a, random_payload(r, k, r.below((uint64_t)cap - 1))));
    run_and_audit(k, cap, s, (unsigned)r.next());
    VF_OK("garbage ++ F1 F2 F3 stream");
    vf::count_case(vf::hash_bytes(s.data(), s.size(), vf::mix(k, cap)), glen > 0);
    if (vf::want_sample() && glen > 10 && glen < 60)
        vf::sample("noise: codec=%s cap=%d garbage(%zu bytes)+3 frames = %s", CODEC_NAME[k], cap, glen, vf::hex(s.data(), s.size(), 90).c_str());
    flush_cov();
}
static void noise_run(uint64_t idx)
{
    vf::Rng r(vf::seed(), 0xC05A, idx);
    noise_body((Codec)(idx % NCODEC), r, idx);
}
VF_SUITE(noise, noise_count, noise_run)

// (4) frames around the capacity: |U| = cap-2 .. cap+2, alone, after a good frame, followed by good frames
static uint64_t fit_count() { return NCODEC * GS_N(490, 6000, 42); }
static void fit_body(Codec k, vf::Rng &r, uint64_t idx)
{
    const Alpha &a = ALPHA[k];
    (void)idx;
    static const int FC[] = {2, 3, 4, 8, 16, 33, 64};
    int cap = FC[(idx / NCODEC) % 7];
    for (int ulen = std::max(1, cap - 2); ulen <= cap + 2; ulen++)
        for (int lead = 0; lead < 2; lead++)
        {
            Bytes s;
            if (lead)
                append(s, ref_frame(a, random_payload(r, k, r.below((uint64_t)cap - 1))));
            append(s, ref_frame(a, random_payload(r, k, (size_t)ulen - 1)));
            for (int i = 0; i < 3; i++)
                append(s, ref_frame(a, random_payload(r, k, r.below((uint64_t)cap - 1))));
            run_and_audit(k, cap, s, (unsigned)r.next());
            vf::count_case(vf::hash_bytes(s.data(), s.size(), vf::mix(k, cap)), true);
            VF_OK("frame of |U| in cap-2..cap+2 embedded in good traffic");
        }
    flush_cov();
}
static void fit_run(uint64_t idx)
{
    vf::Rng r(vf::seed(), 0xC05C, idx);
    fit_body((Codec)(idx % NCODEC), r, idx);
}
VF_SUITE(fit, fit_count, fit_run)

// (5) the directed witnesses of DESIGN "Read/probed": START STUB x body STOP, and one delimiter of garbage before frames
static uint64_t directed_count() { return NCODEC * GS_N(100, 600, 8); }
static void directed_body(Codec k, vf::Rng &r, uint64_t idx)
{
    const Alpha &a = ALPHA[k];
    (void)idx;
    int cap = r.range(4, 40);
    for (int x = 0; x < 256; x += 1 + (int)r.below(5))
    {
        Bytes s{a.START, a.STUB, (uint8_t)x};
        Bytes f = ref_frame(a, random_payload(r, k, r.below((uint64_t)cap - 1)));
        s.insert(s.end(), f.begin() + 1, f.end());
        for (int i = 0; i < 2; i++)
            append(s, ref_frame(a, random_payload(r, k, r.below((uint64_t)cap - 1))));
        run_and_audit(k, cap, s, (unsigned)x);
        VF_OK("START STUB x body STOP stream");
    }
    for (int g = 0; g < 12; g++)
    {
        Bytes s;
        for (int n = (int)r.below(6); n--;)
            s.push_back((uint8_t)('a' + r.below(26)));
        s.push_back(a.START); // one stray delimiter
        for (int n = (int)r.below(6); n--;)
            s.push_back((uint8_t)('a' + r.below(26)));
        for (int i = 0; i < 3; i++)
            append(s, ref_frame(a, random_payload(r, k, r.below((uint64_t)cap - 1))));
        run_and_audit(k, cap, s, (unsigned)g);
        VF_OK("stray delimiter then three frames");
    }
    vf::count_case(vf::mix(idx, vf::seed()), true);
    flush_cov();
}
static void directed_run(uint64_t idx)
{
    vf::Rng r(vf::seed(), 0xC05D, idx);
    directed_body((Codec)(idx % NCODEC), r, idx);
}
VF_SUITE(directed, directed_count, directed_run)

// (8) buffer hand-over inside a stream: setbuf()/init()/setbuf_v1() to an equal, larger or smaller exact buffer at
// every position of a frame (incl. between STUB and its code).  The entry points re-initialise the receiver, so the
// shadow decoder restarts at the swap: the bytes after it are judged like a stream given to a fresh receiver with
// the NEW capacity ((a),(b) after every byte, (c),(d) over the segment).  The old buffer is freed at the swap.
static uint64_t handover_count() { return NCODEC * GS_N(60, 1500, 6); }
static void handover_run(uint64_t idx)
{
    Codec k = (Codec)(idx % NCODEC);
    const Alpha &a = ALPHA[k];
    vf::Rng r(vf::seed(), 0xC05E, idx);
    int cap0 = r.chance(1, 3) ? CAPS[1 + r.below(3)] : r.range(4, 28);
    int small = r.range(2, cap0 - 1), large = cap0 + r.range(1, 9);
    int minc = small;
    Bytes f1 = ref_frame(a, random_payload(r, k, r.below((uint64_t)cap0 - 1)));
    // the frame in flight fills the first buffer well, and starts with an escaped byte half of the time
    Bytes p2 = random_payload(r, k, (size_t)cap0 - 2 - r.below(2));
    if (!p2.empty() && r.chance(1, 2))
        p2[0] = r.chance(1, 2) ? a.START : a.STUB;
    Bytes f2 = ref_frame(a, p2);
    Bytes tail;
    for (int i = 0; i < 3; i++)
        append(tail, ref_frame(a, random_payload(r, k, r.below((uint64_t)minc - 1))));
    unsigned pl = (unsigned)r.next();
    static Run r0, r1;
    uint64_t n = 0;
    for (size_t p = 0; p <= f2.size(); p++)
        for (int variant = 0; variant < 3; variant++)
        {
            int cap1 = variant == 0 ? cap0 : variant == 1 ? large : small;
            bool use_setbuf = (p + variant + idx) % 3 != 0; // 2/3 through setbuf / setbuf_v1, 1/3 through init / zero-fill+setbuf_v1
            Bytes seg0 = f1, seg1(f2.begin() + p, f2.end());
            seg0.insert(seg0.end(), f2.begin(), f2.begin() + p);
            append(seg1, tail);
            char c[64];
            snprintf(c, sizeof c, "%s/handover", CODEC_NAME[k]);
            vf::cls(c);
            if (vf::verbose())
                printf("  codec=%s cap0=%d seg0=%s | %s -> cap1=%d seg1=%s\n", CODEC_NAME[k], cap0, vf::hex(seg0.data(), seg0.size(), 200).c_str(),
                       use_setbuf ? "setbuf" : "init", cap1, vf::hex(seg1.data(), seg1.size(), 300).c_str());
            RxBuf b0, b1;
            b0.make(cap0, pl + (unsigned)p);
            Rx rx(k, k == LEGACY ? SRC_OWN : (int)((p + variant) % NSRC));
            rx.init(b0.p, cap0);
            r0.k = k;
            r0.cap = cap0;
            r0.s = &seg0;
            feed(rx, b0, r0);
            audit(r0);
            b1.make(cap1, pl + (unsigned)p + 1 + (unsigned)variant);
            if (use_setbuf)
                rx.setbuf(b1.p, cap1);
            else
                rx.init(b1.p, cap1);
            b0.release();
            r1.k = k;
            r1.cap = cap1;
            r1.s = &seg1;
            feed(rx, b1, r1);
            audit(r1);
            n++;
            if (variant == 2)
                VF_OK("hand-over to a smaller buffer inside a frame");
            else if (variant == 1)
                VF_OK("hand-over to a larger buffer inside a frame");
            else
                VF_OK("hand-over to an equally sized buffer inside a frame");
            if (p >= 2 && p < f2.size() && f2[p - 1] == a.STUB)
                VF_OK("hand-over between STUB and its code");
        }
    VF_OKN("buffer hand-over (setbuf/init/setbuf_v1) at one position of a frame, old buffer freed", n);
    vf::count_case(vf::hash_bytes(f2.data(), f2.size(), vf::mix(k, cap0)), true);
    if (vf::want_sample())
        vf::sample("handover: codec=%s cap0=%d -> {%d,%d,%d} at every position of frame %s, followed by 3 frames", CODEC_NAME[k], cap0, cap0, large, small,
                   vf::hex(f2.data(), f2.size(), 40).c_str());
    flush_cov();
}
VF_SUITE(handover, handover_count, handover_run)

// (6) receive buffers of 64 KiB and more: a frame that fits must be delivered, one that does not must overflow
static const int BIGCAPS[] = {65535, 65536, 65537, 65600, 70000, 131072 + 5};
static uint64_t big_count() { return NCODEC * GS_N(6, 24, 1); }
static void big_run(uint64_t idx)
{
    Codec k = (Codec)(idx % NCODEC);
    const Alpha &a = ALPHA[k];
    int cap = BIGCAPS[(idx / NCODEC) % 6];
    vf::Rng r(vf::seed(), 0xC05B, idx);
    auto payload = [&](size_t n) {
        Bytes p(n);
        bool biased = r.chance(1, 2);
        for (auto &b : p)
            b = biased && r.chance(1, 4) ? (uint8_t)(r.chance(1, 2) ? a.START : a.STUB) : (uint8_t)('a' + r.below(26));
        return p;
    };
    Bytes s;
    append(s, ref_frame(a, payload((size_t)cap - 2)));             // |U| = cap-1: the longest frame that fits
    append(s, ref_frame(a, payload((size_t)cap - 1 + r.below(3)))); // |U| = cap .. cap+2: does not fit
    append(s, ref_frame(a, payload(r.below(20))));
    append(s, ref_frame(a, payload((size_t)cap - 2 - r.below(2000)))); // long, fits
    run_and_audit(k, cap, s, 1 + (unsigned)r.below(2)); // exact heap block (normal / mirrored); the guard-pattern walk is O(cap) per byte
    VF_OK("receive buffer >= 64 KiB: fitting frame delivered, over-long frame overflows");
    vf::count_case(vf::hash_bytes(s.data(), s.size(), vf::mix(k, cap)), true);
    flush_cov();
}
VF_SUITE(bigbuf, big_count, big_run)

// (7) EXTRA configuration dimension, beyond the letter of the statement ("both marker alphabets"): caller-defined
// gstuff_context values, START != STOP and START == STOP.  Reduced workload, same clauses (a)-(d); keys are
// prefixed "custom-alphabet:".
static void custom_exhaustive(int cap, int L)
{
    Bytes al = stream_alphabet(CUSTOM);
    uint64_t A = al.size(), cnt = 1, n = 0;
    Bytes s;
    for (int len = 0; len <= L; len++, cnt *= A)
    {
        for (uint64_t t = 0; t < cnt; t++)
        {
            s.resize(len);
            uint64_t x = t;
            for (int i = 0; i < len; i++, x /= A)
                s[i] = al[x % A];
            run_and_audit(CUSTOM, cap, s, (unsigned)t);
        }
        n += cnt;
    }
    vf::count_bulk(n, n - 1);
}
static uint64_t custom_count() { return 2 * (uint64_t)GS_N(3 * 17 + 20, 3 * 17 + 400, 3 * 17); }
static void custom_run(uint64_t idx)
{
    bool shared = idx % 2;
    Alpha a = custom_alpha(vf::seed(), idx / 2, shared);
    set_custom(a);
    vf::Rng r(vf::seed(), 0xC05C05, idx);
    if (vf::verbose())
        printf("  custom alphabet START=%02x STOP=%02x STUB=%02x codes=%02x %02x %02x\n", a.START, a.STOP, a.STUB, a.C_START, a.C_STOP, a.C_STUB);
    for (int cap : CAPS)
        custom_exhaustive(cap, GS_N(4, 4, 3));
    fault_body(CUSTOM, r, idx);
    for (int i = 0; i < 20; i++)
        noise_body(CUSTOM, r, idx);
    for (int i = 0; i < 3; i++)
        fit_body(CUSTOM, r, r.next());
    directed_body(CUSTOM, r, idx);
    VF_OK("custom-alphabet: clauses (a)-(d) over a caller-defined gstuff_context (extra dimension)");
    if (shared)
        VF_OK("custom-alphabet: START == STOP variant");
    else
        VF_OK("custom-alphabet: START != STOP variant");
    if (a.START == 0xFF || a.STOP == 0xFF || a.STUB == 0xFF)
        VF_OK("custom-alphabet: 0xFF as a marker");
    if (vf::want_sample() && idx == 17)
        vf::sample("custom: alphabet START=%02x STOP=%02x STUB=%02x codes=%02x,%02x,%02x; all streams <= 4 x caps {2,3,4,8}, faults, noise, fit, directed", a.START,
                   a.STOP, a.STUB, a.C_START, a.C_STOP, a.C_STUB);
    flush_cov();
}
VF_SUITE(custom, custom_count, custom_run)

static uint64_t calib_count() { return 1; }
static void calib_run(uint64_t)
{
    for (Codec k : {V1, V0})
    {
        gstuff_context c = ctx_of(k);
        const Alpha &a = ALPHA[k];
        if ((uint8_t)c.GSTUFF_START != a.START || (uint8_t)c.GSTUFF_STOP != a.STOP || (uint8_t)c.GSTUFF_STUB != a.STUB ||
            (uint8_t)c.GSTUFF_STUB_START != a.C_START || (uint8_t)c.GSTUFF_STUB_STOP != a.C_STOP || (uint8_t)c.GSTUFF_STUB_STUB != a.C_STUB)
            vf::fail("C05:harness:alphabet-calibration", "reference alphabet of %s differs from gstuff_context", CODEC_NAME[k]);
    }
    const Alpha &l = ALPHA[LEGACY];
    if (lg_const(0) != l.START || lg_const(1) != l.STUB || lg_const(2) != l.C_START || lg_const(3) != l.C_STUB)
        vf::fail("C05:harness:alphabet-calibration", "reference alphabet of the legacy codec differs from gstuff_v1/gstuff.h");
    if ((size_t)lg_sizeof() > sizeof(Rx::lg))
        vf::fail("C05:harness:legacy-storage", "gstuff_autorecv_v1 is %d bytes", lg_sizeof());
    VF_OK("reference alphabets == shipped gstuff_context values");
    if (CHAR_MIN == 0)
        VF_OK("plain char is unsigned in this build");
}
VF_SUITE(calib, calib_count, calib_run)

extern "C" void vf_setup()
{
#ifdef GS_REDUCED
    for (const char *c : {"plain char is unsigned in this build", "(a) size() <= cap-1 and guards intact after the byte",
                          "(b) NEWPACKAGE == unescape(since last start marker) minus matching CRC-8, fits", "(b) checked: v1", "(b) checked: v0",
                          "(b) checked: legacy", "custom-alphabet: (b) checked", "(c) checked: v1", "(c) checked: v0", "(c) checked: legacy",
                          "(d) after a non-empty prefix: v1", "(d) after a non-empty prefix: v0", "(d) after a non-empty prefix: legacy",
                          "custom-alphabet: (d) after a non-empty prefix", "garbage ++ F1 F2 F3 stream",
                          "buffer hand-over (setbuf/init/setbuf_v1) at one position of a frame, old buffer freed"})
        vf::require(c);
    return;
#endif
    for (const char *c : {"(a) size() <= cap-1 and guards intact after the byte",
                          "(b) NEWPACKAGE == unescape(since last start marker) minus matching CRC-8, fits", "(b) checked: v1", "(b) checked: v0",
                          "(b) checked: legacy", "(c) oversized well-formed frame: OVERFLOW before its stop marker, not delivered", "(c) checked: v1",
                          "(c) checked: v0", "(c) checked: legacy", "(d) well-formed fitting frame delivered at its stop marker",
                          "(d) after a non-empty prefix: v1", "(d) after a non-empty prefix: v0", "(d) after a non-empty prefix: legacy",
                          "fault-injected stream (drop/dup/flip/insert/truncate at one position)", "garbage ++ F1 F2 F3 stream",
                          "frame of |U| in cap-2..cap+2 embedded in good traffic", "START STUB x body STOP stream", "stray delimiter then three frames",
                          "reference alphabets == shipped gstuff_context values", "status:v1:NEWPACKAGE", "status:v1:OVERFLOW", "status:v0:NEWPACKAGE",
                          "status:v0:OVERFLOW", "status:legacy:NEWPACKAGE", "status:legacy:OVERFLOW",
                          "receive buffer >= 64 KiB: fitting frame delivered, over-long frame overflows",
                          "custom-alphabet: clauses (a)-(d) over a caller-defined gstuff_context (extra dimension)", "custom-alphabet: (b) checked",
                          "custom-alphabet: (c) checked", "custom-alphabet: (d) after a non-empty prefix", "custom-alphabet: START == STOP variant",
                          "custom-alphabet: START != STOP variant", "custom-alphabet: 0xFF as a marker", "status:custom:NEWPACKAGE",
                          "status:custom:OVERFLOW", "buffer hand-over (setbuf/init/setbuf_v1) at one position of a frame, old buffer freed",
                          "hand-over to a smaller buffer inside a frame", "hand-over to a larger buffer inside a frame",
                          "hand-over to an equally sized buffer inside a frame", "hand-over between STUB and its code", "receiver context source:own",
                          "receiver context source:temporary", "receiver context source:factory-local", "receiver context source:heap-freed",
                          "receiver context source:reassigned"})
        vf::require(c);
}
