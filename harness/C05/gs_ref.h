// gs_ref.h — independent reference for the gstuff framing, written from the property statements
// (C04/C05) and DESIGN §3/§3a, not from the igris sources.  Identical copy in harness/C04 and harness/C05.
//
// Frame := START  esc(payload ++ crc8(payload))  STOP
// esc(b) := STUB C_START | STUB C_STOP | STUB C_STUB for b in {START, STOP, STUB}, else b
// crc8   := MSB-first, polynomial x^8+x^5+x^4+1 (0x31), initial value 0xFF, no final xor
#pragma once
#include <cstddef>
#include <cstdint>
#include <vector>

namespace gs
{
    enum Codec
    {
        V1 = 0,     // configurable codec, gstuff_context() alphabet (START != STOP)
        V0 = 1,     // configurable codec, gstuff_context_v0() alphabet (START == STOP)
        LEGACY = 2, // gstuffing_v1 + gstuff_autorecv_v1
        NCODEC = 3, // the shipped codecs the statements quantify over
        CUSTOM = 3, // EXTRA dimension beyond the statements: configurable codec with a caller-defined gstuff_context
        NCODEC_ALL = 4
    };
    static const char *const CODEC_NAME[4] = {"v1", "v0", "legacy", "custom"};
    // keys of the extra dimension are prefixed so that they can never be mistaken for a statement clause
    static inline const char *key_prefix(int k) { return k == CUSTOM ? "custom-alphabet:" : ""; }

    struct Alpha
    {
        uint8_t START, STOP, STUB, C_START, C_STOP, C_STUB;
        bool shared() const { return START == STOP; }
        bool is_marker(uint8_t c) const { return c == START || c == STOP || c == STUB; }
    };
    // the two shipped alphabets (calibrated against the library's gstuff_context values in vf_setup-time clauses)
    // slot CUSTOM is set per case by set_custom()
    static Alpha ALPHA[4] = {{0xA8, 0xB2, 0xC5, 0x8A, 0x2B, 0x5C},
                             {0xAC, 0xAC, 0xAD, 0xAE, 0xAE, 0xAF},
                             {0xAC, 0xAC, 0xAD, 0xAE, 0xAE, 0xAF},
                             {0xA8, 0xB2, 0xC5, 0x8A, 0x2B, 0x5C}};
    // Custom alphabets: six pairwise distinct bytes from this pool (START != STOP), or four with STOP == START and
    // C_STOP == C_START (the shape of the shipped v0 alphabet).  For idx < 3*POOL every pool value is placed in
    // every marker role once; the remaining choices are a pure function of (seed, idx).
    static const uint8_t CUSTOM_POOL[17] = {0x00, 0x01, 0x7F, 0x80, 0xFE, 0xFF, 'a', 0xA8, 0xB2, 0xC5, 0x8A, 0x2B, 0x5C, 0xAC, 0xAD, 0xAE, 0xAF};
    static inline Alpha custom_alpha(uint64_t seed, uint64_t idx, bool shared)
    {
        uint64_t x = seed * 0x9e3779b97f4a7c15ULL + idx * 0xbf58476d1ce4e5b9ULL + 12345;
        auto next = [&x]() {
            x ^= x << 13;
            x ^= x >> 7;
            x ^= x << 17;
            return x;
        };
        uint8_t v[6];
        bool used[17] = {false};
        int forced_role = idx < 3 * 17 ? (int)(idx % 3) : -1;
        if (forced_role >= 0)
        {
            v[forced_role] = CUSTOM_POOL[idx / 3];
            used[idx / 3] = true;
        }
        for (int i = 0; i < 6; i++)
        {
            if (i == forced_role)
                continue;
            int j;
            do
                j = (int)(next() % 17);
            while (used[j]);
            used[j] = true;
            v[i] = CUSTOM_POOL[j];
        }
        // roles: v[0] START, v[1] STUB, v[2] STOP, v[3] C_START, v[4] C_STOP, v[5] C_STUB
        Alpha a{v[0], v[2], v[1], v[3], v[4], v[5]};
        if (shared)
        {
            a.STOP = a.START;
            a.C_STOP = a.C_START;
        }
        return a;
    }
    static inline void set_custom(const Alpha &a) { ALPHA[CUSTOM] = a; }

    // normalised receiver status (the numeric values of the C++ receiver)
    enum St
    {
        ST_CONTINUE = 0,
        ST_NEW = 1,
        ST_RESTART = 2,
        ST_GARBAGE = 3,
        ST_CRC = -1,
        ST_OVERFLOW = -2,
        ST_STUFF = -3,
        ST_ALGO = -4,
        ST_UNKNOWN = -9
    };
    static inline const char *st_name(int s)
    {
        switch (s)
        {
        case ST_CONTINUE: return "CONTINUE";
        case ST_NEW: return "NEWPACKAGE";
        case ST_RESTART: return "FORCE_RESTART";
        case ST_GARBAGE: return "GARBAGE";
        case ST_CRC: return "CRC_ERROR";
        case ST_OVERFLOW: return "OVERFLOW";
        case ST_STUFF: return "STUFFING_ERROR";
        case ST_ALGO: return "ALGORITHM_ERROR";
        }
        return "UNKNOWN";
    }
    static inline int st_slot(int s) { return s >= 0 && s <= 3 ? s : s >= -4 && s < 0 ? 3 - s : 8; } // 0..8
    static inline int slot_st(int i) { return i <= 3 ? i : i <= 7 ? 3 - i : ST_UNKNOWN; }

    static inline uint8_t crc8(const uint8_t *d, size_t n, uint8_t crc = 0xFF)
    {
        for (size_t i = 0; i < n; i++)
        {
            crc ^= d[i];
            for (int b = 0; b < 8; b++)
                crc = (crc & 0x80) ? (uint8_t)((crc << 1) ^ 0x31) : (uint8_t)(crc << 1);
        }
        return crc;
    }
    static inline void esc_byte(const Alpha &a, uint8_t b, std::vector<uint8_t> &out)
    {
        if (b == a.START)
        {
            out.push_back(a.STUB);
            out.push_back(a.C_START);
        }
        else if (b == a.STOP)
        {
            out.push_back(a.STUB);
            out.push_back(a.C_STOP);
        }
        else if (b == a.STUB)
        {
            out.push_back(a.STUB);
            out.push_back(a.C_STUB);
        }
        else
            out.push_back(b);
    }
    // escaped payload ++ crc, without the two delimiters
    static inline std::vector<uint8_t> ref_body(const Alpha &a, const std::vector<uint8_t> &p)
    {
        std::vector<uint8_t> f;
        for (uint8_t b : p)
            esc_byte(a, b, f);
        esc_byte(a, crc8(p.data(), p.size()), f);
        return f;
    }
    static inline std::vector<uint8_t> ref_frame(const Alpha &a, const std::vector<uint8_t> &p)
    {
        std::vector<uint8_t> f;
        f.push_back(a.START);
        std::vector<uint8_t> b = ref_body(a, p);
        f.insert(f.end(), b.begin(), b.end());
        f.push_back(a.STOP);
        return f;
    }
    // Unescape raw[0..n).  Valid iff it contains no raw START/STOP, every STUB is followed by one of the three
    // codes, and it does not end in a lone STUB.  *why (optional): 1 raw marker, 2 bad code, 3 dangling STUB.
    static inline bool unescape(const Alpha &a, const uint8_t *raw, size_t n, std::vector<uint8_t> &out, int *why = nullptr)
    {
        out.clear();
        for (size_t i = 0; i < n; i++)
        {
            uint8_t c = raw[i];
            if (c == a.START || c == a.STOP)
            {
                if (why)
                    *why = 1;
                return false;
            }
            if (c == a.STUB)
            {
                if (i + 1 >= n)
                {
                    if (why)
                        *why = 3;
                    return false;
                }
                uint8_t d = raw[++i];
                if (d == a.C_START)
                    out.push_back(a.START);
                else if (d == a.C_STOP)
                    out.push_back(a.STOP);
                else if (d == a.C_STUB)
                    out.push_back(a.STUB);
                else
                {
                    if (why)
                        *why = 2;
                    return false;
                }
            }
            else
                out.push_back(c);
        }
        return true;
    }
} // namespace gs
