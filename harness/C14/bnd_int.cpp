// C14: static_vector<int, N> at boundary capacities N in {15,...,257}; thorough: {65535,65536,65537}
#include "c14.h"
C14_SV_BOUNDARY_SUITES(int, int)
