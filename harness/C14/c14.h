// c14.h — fixed-capacity containers: igris::static_vector<T,N> / igris::static_string<N>.
// Compiled twice: against igris/container/static_vector.h + static_string.h, and (with -DC14_PORTABLE)
// against the twins inside igris/container/std_portable.h (which redefine the same names and
// therefore live in a binary of their own).
//
// Reference: std::vector<int> of ids / std::string clipped to N (the prefix is kept, excess input is
// dropped). The container object lives either alone in a heap block of exactly sizeof(container)
// (anything written behind the object is an ASan report) or between two canary words (the
// "member of a bigger object" placement, where ASan cannot see an overrun). After EVERY operation:
// size() <= N and == model, room(), contents through every accessor, canaries, Tracked registry,
// number of live Tracked objects == sum of the sizes the containers report.
#pragma once
#include <cassert>
#include "vf.h"
#include "guard.h"
#include "tracked.h"
#ifdef C14_PORTABLE
#include <igris/container/std_portable.h>
#define C14_FLAV "portable."
#else
#include <igris/container/static_string.h>
#include <igris/container/static_vector.h>
#define C14_FLAV ""
#endif
#include <algorithm>
#include <list>
#include <string>
#include <type_traits>
#include <vector>

namespace c14
{
    using vf::Tracked;

    template <class T> struct El;
    template <> struct El<int>
    {
        static constexpr const char *name = "int";
        static constexpr bool tracked = false;
        static constexpr int default_id = 0;
        static int make(int id) { return id; }
        static int arg(int id) { return id; }
        static int id(const int &x) { return x; }
    };
    template <> struct El<std::string>
    {
        static constexpr const char *name = "string";
        static constexpr bool tracked = false;
        static constexpr int default_id = -5;
        static std::string make(int id)
        {
            if (id == default_id)
                return std::string();
            return (id & 1 ? std::string("#") : std::string("a-string-long-enough-to-own-heap-memory-#")) + std::to_string(id);
        }
        static std::string arg(int id) { return make(id); }
        static int id(const std::string &x)
        {
            size_t p = x.rfind('#');
            return p == std::string::npos ? -5 : atoi(x.c_str() + p + 1);
        }
    };
    template <> struct El<Tracked>
    {
        static constexpr const char *name = "Tracked";
        static constexpr bool tracked = true;
        static constexpr int default_id = 0;
        static Tracked make(int id) { return Tracked(id); }
        static int arg(int id) { return id; }
        static int id(const Tracked &x) { return x.id(); }
    };

    // ------------------------------------------------------------ element whose constructors throw on schedule
    // The harness arms (kind, countdown) right before ONE call into the container: the countdown-th
    // construction of that kind (value/default, copy, move) throws InjectedFault before anything is
    // constructed or the source is touched. Destructors and assignments never throw.
    struct InjectedFault
    {
    };
    struct Throwing : Tracked
    {
        enum
        {
            NONE,
            VALUE,
            COPY,
            MOVE
        };
        static inline int armed = NONE, countdown = 0;
        static void arm(int kind, int n)
        {
            armed = kind;
            countdown = n;
        }
        static void disarm() { armed = NONE; }
        static int tick(int kind)
        {
            if (kind == armed && countdown > 0 && --countdown == 0)
            {
                armed = NONE;
                throw InjectedFault();
            }
            return 0;
        }
        Throwing() : Tracked(tick(VALUE)) {}
        Throwing(int id) : Tracked(tick(VALUE) + id) {}
        Throwing(const Throwing &o) : Tracked((tick(COPY), static_cast<const Tracked &>(o))) {}
        Throwing(Throwing &&o) : Tracked((tick(MOVE), static_cast<Tracked &&>(o))) {} // deliberately not noexcept
        Throwing &operator=(const Throwing &) = default;
        Throwing &operator=(Throwing &&) = default;
    };
    template <> struct El<Throwing>
    {
        static constexpr const char *name = "Throwing";
        static constexpr bool tracked = true;
        static constexpr int default_id = 0;
        static Throwing make(int id) { return Throwing(id); }
        static int arg(int id) { return id; }
        static int id(const Throwing &x) { return x.id(); }
    };

    // ------------------------------------------------------------ element types with mixed triviality
    // TrivAssign: constructors and destructor register in the Tracked registry (keyed by address, no heap
    // cell), copy assignment is implicit and TRIVIAL: a container that picks a memcpy path by looking at the
    // wrong trait (is_trivially_copy_assignable) skips constructions / destructions this type makes visible.
    struct TrivAssign
    {
        int v;
        void born()
        {
            vf::TrackedReg &r = vf::treg();
            if (r.live.count(this))
                Tracked::err("construct-over-live", this);
            r.live[this] = 1;
            r.constructed++;
        }
        TrivAssign() : v(0) { born(); }
        TrivAssign(int id) : v(id) { born(); }
        TrivAssign(const TrivAssign &o) : v(o.id()) { born(); }
        ~TrivAssign()
        {
            vf::TrackedReg &r = vf::treg();
            auto it = r.live.find(this);
            if (it == r.live.end())
            {
                Tracked::err("destroy-nonlive", this);
                return;
            }
            r.live.erase(it);
            r.destroyed++;
        }
        TrivAssign &operator=(const TrivAssign &) = default;
        int id() const
        {
            if (!Tracked::is_live(this))
            {
                Tracked::err("read-nonlive", this);
                return -3;
            }
            return v;
        }
    };
    static_assert(std::is_trivially_copy_assignable_v<TrivAssign> && !std::is_trivially_copy_constructible_v<TrivAssign> &&
                  !std::is_trivially_destructible_v<TrivAssign>);
    template <> struct El<TrivAssign>
    {
        static constexpr const char *name = "TrivAssign";
        static constexpr bool tracked = true;
        static constexpr int default_id = 0;
        static TrivAssign make(int id) { return TrivAssign(id); }
        static int arg(int id) { return id; }
        static int id(const TrivAssign &x) { return x.id(); }
    };
    // TrivLife: the mirror image - trivial construction / destruction, user-provided assignment that keeps a
    // checksum member in step
    struct TrivLife
    {
        int v;
        int twice;
        TrivLife &operator=(const TrivLife &o)
        {
            v = o.v;
            twice = 2 * o.v;
            return *this;
        }
    };
    static_assert(std::is_trivially_copy_constructible_v<TrivLife> && std::is_trivially_destructible_v<TrivLife> &&
                  !std::is_trivially_copy_assignable_v<TrivLife>);
    template <> struct El<TrivLife>
    {
        static constexpr const char *name = "TrivLife";
        static constexpr bool tracked = false;
        static constexpr int default_id = 0;
        static TrivLife make(int id) { return TrivLife{id, 2 * id}; }
        static TrivLife arg(int id) { return make(id); }
        static int id(const TrivLife &x) { return x.twice == 2 * x.v ? x.v : -7; }
    };

    // ------------------------------------------------------------ harness-owned iterators
    // InIt: a genuine single-pass input iterator. All copies share one source; advancing any copy
    // consumes the source, and using a copy that was left behind (or reading at the end) is reported.
    // FwdIt: a multi-pass forward iterator over the same array.
#ifdef C14_PORTABLE
    using input_tag = igris::input_iterator_tag;
    using forward_tag = igris::forward_iterator_tag;
#else
    using input_tag = std::input_iterator_tag;
    using forward_tag = std::forward_iterator_tag;
#endif
    inline std::string &iter_ctx()
    {
        static std::string c;
        return c;
    }
    template <class T> struct InSrc
    {
        const T *data;
        size_t n, pos = 0;
        unsigned long gen = 0;
    };
    template <class T> struct InIt
    {
        using iterator_category = input_tag;
        using value_type = T;
        using difference_type = ptrdiff_t;
        using pointer = const T *;
        using reference = const T &;
        InSrc<T> *s = nullptr;
        unsigned long gen = 0;
        bool at_end() const { return !s || s->pos >= s->n; }
        void usable(const char *what) const
        {
            if (s && gen != s->gen)
                vf::fail(("input-range:" + iter_ctx() + ":stale-copy-used").c_str(),
                         "%s of an input-iterator copy after another copy had advanced the shared source (source at %zu of %zu): the range was traversed twice", what,
                         s->pos, s->n);
            if (at_end())
                vf::fail(("input-range:" + iter_ctx() + ":used-at-end").c_str(), "%s of an input iterator that is at the end of its range", what);
        }
        const T &operator*() const
        {
            usable("dereference");
            return s->data[s->pos];
        }
        InIt &operator++()
        {
            usable("increment");
            s->pos++;
            gen = ++s->gen;
            return *this;
        }
        struct Proxy
        {
            T v;
            const T &operator*() const { return v; }
        };
        Proxy operator++(int)
        {
            Proxy p{**this};
            ++*this;
            return p;
        }
        friend bool operator==(const InIt &a, const InIt &b) { return a.at_end() == b.at_end(); } // only "== end" is meaningful
        friend bool operator!=(const InIt &a, const InIt &b) { return !(a == b); }
    };
    template <class T> struct FwdIt
    {
        using iterator_category = forward_tag;
        using value_type = T;
        using difference_type = ptrdiff_t;
        using pointer = const T *;
        using reference = const T &;
        const T *p = nullptr;
        const T &operator*() const { return *p; }
        FwdIt &operator++()
        {
            ++p;
            return *this;
        }
        FwdIt operator++(int)
        {
            FwdIt r = *this;
            ++p;
            return r;
        }
        friend bool operator==(const FwdIt &a, const FwdIt &b) { return a.p == b.p; }
        friend bool operator!=(const FwdIt &a, const FwdIt &b) { return a.p != b.p; }
    };

    // ------------------------------------------------------------ placement of the object under test
    static const uint64_t CANARY = 0xC0FFEE5AA5C14C14ULL;
    template <class C> struct Box
    {
        uint64_t pre[2];
        alignas(C) unsigned char raw[sizeof(C)];
        uint64_t post[2];
    };
    template <class C> struct Holder
    {
        C *p = nullptr;
        Box<C> *box = nullptr;
        void *mem = nullptr;
        // `construct(void *where)` placement-news the container
        template <class F> void create(bool boxed, F &&construct)
        {
            if (boxed)
            {
                box = (Box<C> *)::operator new(sizeof(Box<C>));
                memset((void *)box, 0xA5, sizeof(Box<C>));
                box->pre[0] = box->pre[1] = box->post[0] = box->post[1] = CANARY;
                mem = box;
                p = construct((void *)box->raw);
            }
            else
            {
                mem = ::operator new(sizeof(C)); // the red zone starts at mem + sizeof(C)
                p = construct(mem);
            }
        }
        bool canaries_intact() const { return !box || (box->pre[0] == CANARY && box->pre[1] == CANARY && box->post[0] == CANARY && box->post[1] == CANARY); }
        void destroy()
        {
            if (!p)
                return;
            p->~C();
            p = nullptr;
        }
        void release()
        {
            ::operator delete(mem);
            mem = nullptr;
            box = nullptr;
        }
        C &operator*() { return *p; }
        C *operator->() { return p; }
    };

    // ------------------------------------------------------------ static_vector
    enum SKind
    {
        S_PUSH_FRESH,
        S_PUSH_ALIAS,
        S_EMPLACE_BACK,
        S_RESIZE,
        S_ERASE_RANGE,
        S_CLEAR,
        S_COPY_CTOR,
        S_MOVE_CTOR,
        S_COPY_ASSIGN_FROM,
        S_COPY_ASSIGN_TO,
        S_MOVE_ASSIGN_FROM,
        S_MOVE_ASSIGN_TO,
        S_SELF_ASSIGN,
        S_CTOR_RANGE,
        S_CTOR_IL,
        S_NKINDS
    };
    static const char *const SNAME[S_NKINDS] = {"push_back(fresh)", "push_back(v[i])", "emplace_back(args)", "resize", "erase(first,last)", "clear",
                                                "copy-ctor", "move-ctor", "copy-assign(from-other)", "copy-assign(to-other)", "move-assign(from-other)",
                                                "move-assign(to-other)", "copy-assign(self)", "ctor(first,last)", "ctor(initializer_list)"};
    struct Op
    {
        int kind, a, b;
    };
    template <class SV> constexpr bool has_erase = requires(SV &x) { x.erase(x.begin(), x.begin()); };
    template <class SV, class T> constexpr bool has_range_ctor = std::is_constructible_v<SV, const T *, const T *>;
    template <class SV, class T> constexpr bool has_il = std::is_constructible_v<SV, std::initializer_list<T> &>;

    template <class T, size_t N> struct SVHist
    {
        using SV = igris::static_vector<T, N>;
        using E = El<T>;
        using H = Holder<SV>;
        H v;
        std::vector<int> m;
        int next = 100;
        bool boxed = false;
        const char *op = "?";
        std::string trace;
        static const std::string &flav()
        {
            static const std::string f = std::string(C14_FLAV "static_vector<") + E::name + ">"; // N goes into the detail, not the key
            return f;
        }
        [[noreturn]] __attribute__((format(printf, 4, 5))) void bad(const char *monitor, const char *clause, const char *fmt, ...)
        {
            char key[vf::KEY_LEN], det[900];
            snprintf(key, sizeof key, "%s:%s:%s:%s", monitor, flav().c_str(), op, clause);
            va_list ap;
            va_start(ap, fmt);
            vsnprintf(det, sizeof det, fmt, ap);
            va_end(ap);
            vf::fail(key, "N=%zu: %s | placement=%s | history: %s", N, det, boxed ? "between canaries" : "alone in an exact heap block", trace.c_str());
        }
        static std::string show(const std::vector<int> &x)
        {
            std::string s = "[";
            for (size_t i = 0; i < x.size() && i < 24; i++)
                s += (i ? "," : "") + std::to_string(x[i]);
            return s + (x.size() > 24 ? ",...]" : "]");
        }
        static std::vector<int> clip(std::vector<int> x)
        {
            if (x.size() > N)
                x.resize(N);
            return x;
        }
        std::vector<int> fresh_ids(int k)
        {
            std::vector<int> r;
            for (int i = 0; i < k; i++)
                r.push_back(next++);
            return r;
        }
        static std::vector<T> mk(const std::vector<int> &ids)
        {
            std::vector<T> r;
            r.reserve(ids.size());
            for (int i : ids)
                r.push_back(E::make(i));
            return r;
        }
        void begin_op(const Op &o)
        {
            op = SNAME[o.kind];
            Tracked::at(op);
            char tag[160];
            snprintf(tag, sizeof tag, "%s:%s", flav().c_str(), op);
            vf::cls(tag);
            char b[96];
            snprintf(b, sizeof b, "%s%s(%d,%d)[n=%zu]", trace.empty() ? "" : " ; ", op, o.a, o.b, m.size());
            trace += b;
            if (vf::verbose())
                printf("  op %s a=%d b=%d   N=%zu size=%zu model=%s\n", op, o.a, o.b, N, m.size(), show(m).c_str());
            vf::state(vf::mix(N * 64 + o.kind, vf::mix(m.size(), std::is_same_v<T, int> ? 0 : E::tracked ? 1 : 2)));
        }
        void start(bool boxed_)
        {
            Tracked::reset(flav().c_str());
            Throwing::disarm();
            boxed = boxed_;
            m.clear();
            next = 100;
            trace.clear();
            op = "ctor()";
            Tracked::at(op);
            vf::cls((flav() + ":ctor()").c_str());
            v.create(boxed, [](void *w) { return new (w) SV; });
            verify(v, m, 0);
        }
        // `live` = Tracked objects that must exist right now
        void verify(H &h, const std::vector<int> &mm, size_t live)
        {
            Tracked::check();
            SV &x = *h;
            const SV &cx = x;
            if (!h.canaries_intact())
                bad("bounds", "canary", "a word next to the container object was overwritten (size()=%zu, N=%zu)", cx.size(), N);
            VF_OK("memory next to the object is untouched (canaries / exact heap block)");
            if (cx.size() > N)
                bad("bounds", "size>N", "size()=%zu exceeds the capacity N=%zu", cx.size(), N);
            VF_OK("size() <= N");
            if (cx.size() != mm.size())
                bad("seq", "size", "size()=%zu, reference (clipped to N=%zu) has %zu %s", cx.size(), N, mm.size(), show(mm).c_str());
            if (cx.room() != N - mm.size())
                bad("seq", "room", "room()=%zu, expected %zu", cx.room(), N - mm.size());
            if ((size_t)(cx.end() - cx.begin()) != mm.size() || (size_t)(x.end() - x.begin()) != mm.size())
                bad("seq", "range", "end()-begin()=%td, expected %zu", cx.end() - cx.begin(), mm.size());
            std::vector<int> got;
            for (auto it = cx.begin(); it != cx.end(); ++it)
                got.push_back(E::id(*it));
            if (got != mm)
                bad("seq", "content", "begin()..end() = %s, reference = %s", show(got).c_str(), show(mm).c_str());
            Tracked::check();
            for (size_t i = 0; i < mm.size(); i++)
                if (E::id(x[i]) != mm[i] || E::id(cx[i]) != mm[i] || E::id(x.data()[i]) != mm[i] || E::id(cx.data()[i]) != mm[i])
                    bad("seq", "index", "[%zu] = %d, reference = %d", i, E::id(cx[i]), mm[i]);
            if (!mm.empty() && (E::id(x.front()) != mm.front() || E::id(cx.front()) != mm.front() || E::id(x.back()) != mm.back() || E::id(cx.back()) != mm.back()))
                bad("seq", "front-back", "front()/back() = %d/%d, reference = %d/%d", E::id(cx.front()), E::id(cx.back()), mm.front(), mm.back());
            VF_OK("size, room, begin..end, [], data, front, back == reference clipped to N");
            Tracked::check();
            if constexpr (E::tracked)
            {
                VF_OK("no operation touched a non-live element (Tracked registry)");
                if (Tracked::live_count() != live)
                    bad("lifetime", "live-count", "%zu Tracked objects are alive, the containers account for exactly %zu (reference = %s)",
                        Tracked::live_count(), live, show(mm).c_str());
                VF_OK("live element objects == elements the containers hold");
            }
        }
        void verify() { verify(v, m, m.size()); }
        void replace(H &w)
        {
            v.destroy();
            v.release();
            v = w;
        }
        H make_other(const std::vector<int> &ids)
        {
            H t;
            t.create(!boxed, [](void *w) { return new (w) SV; });
            for (int i : ids)
            {
                T x = E::make(i);
                t->push_back(x);
            }
            return t;
        }
        // ---- fault injection (T = Throwing only): armed around exactly one call into the container
        static constexpr bool throwing = std::is_same_v<T, Throwing>;
        int fault_kind = 0, fault_countdown = 0; // set by the workload before apply(); consumed by it
        bool fault_fired = false;
        template <class F> bool guarded(F &&f)
        {
            if constexpr (throwing)
            {
                int k = fault_kind, c = fault_countdown;
                fault_kind = 0;
                if (!k)
                {
                    f();
                    return false;
                }
                Throwing::arm(k, c);
                try
                {
                    f();
                }
                catch (const InjectedFault &)
                {
                    Throwing::disarm();
                    fault_fired = true;
                    if (vf::verbose())
                        printf("    -> injected fault: construction #%d of kind %d threw\n", c, k);
                    trace += k == Throwing::VALUE ? "!value-ctor-threw" : k == Throwing::COPY ? "!copy-ctor-threw" : "!move-ctor-threw";
                    return true;
                }
                catch (...)
                {
                    Throwing::disarm(); // a monitor failure passes through: do not leave the fault armed for the next case
                    throw;
                }
                Throwing::disarm();
                return false;
            }
            else
            {
                f();
                return false;
            }
        }
        // after a throwing operation that is allowed to leave a changed (but valid) container: every element
        // it exposes must be a live object, it must stay within N and the canaries
        void exposed_live(H &h)
        {
            Tracked::check();
            if (!h.canaries_intact())
                bad("bounds", "canary-after-throw", "a word next to the container object was overwritten");
            if (h->size() > N)
                bad("bounds", "size>N-after-throw", "size()=%zu exceeds N=%zu after an element constructor threw", h->size(), N);
            for (size_t i = 0; i < h->size(); i++)
                (void)E::id((*h)[i]); // a slot that holds no object is reported by the registry
            Tracked::check();
        }
        void live_after_throw(size_t live)
        {
            if constexpr (E::tracked)
                if (Tracked::live_count() != live)
                    bad("lifetime", "live-count-after-throw",
                        "%zu Tracked objects are alive after an element constructor threw, the containers report exactly %zu elements", Tracked::live_count(), live);
            VF_OK("after a throwing element constructor: exposed elements are live objects, live == size(), size() <= N");
        }
        void resync()
        {
            m.clear();
            for (size_t i = 0; i < v->size(); i++)
                m.push_back(E::id((*v)[i]));
        }
        template <size_t... I> bool create_il(H &w, bool bx, const std::vector<int> &ids, std::index_sequence<I...>)
        {
            std::initializer_list<T> il = {E::make(ids[I])...};
            return guarded([&] { w.create(bx, [&](void *where) { return new (where) SV(il); }); });
        }
        // initializer lists have compile-time lengths: 0..2N for the small capacities, capped at 18 for the large ones
        static constexpr size_t IL_MAX = 2 * N < 18 ? 2 * N : 18;
        template <size_t K = 0> bool create_il_n(H &w, bool bx, const std::vector<int> &ids)
        {
            if (ids.size() == K)
                return create_il(w, bx, ids, std::make_index_sequence<K>());
            if constexpr (K < IL_MAX)
                return create_il_n<K + 1>(w, bx, ids);
            else
                vf::fail("harness:initializer-list-length", "no initializer list of %zu entries is compiled in", ids.size());
        }
        // many appends (push_back / emplace_back alternately) with an O(1) size check per step and one full
        // comparison at the end: for the large capacities, where a full comparison per element would be quadratic
        void bulk_push(size_t count)
        {
            op = "fill(push_back,emplace_back)";
            Tracked::at(op);
            vf::cls((flav() + ":" + op).c_str());
            iter_ctx() = flav() + ":" + op;
            char b[96];
            snprintf(b, sizeof b, "%sfill x%zu[n=%zu]", trace.empty() ? "" : " ; ", count, m.size());
            trace += b;
            if (vf::verbose())
                printf("  op %zu x push_back/emplace_back   N=%zu size=%zu\n", count, N, m.size());
            for (size_t i = 0; i < count; i++)
            {
                int id = next++;
                if (i & 1)
                    v->emplace_back(E::arg(id));
                else
                {
                    T x = E::make(id);
                    v->push_back(x);
                }
                if (m.size() < N)
                    m.push_back(id);
                if (v->size() != m.size())
                    bad("seq", "size", "size()=%zu after append #%zu, reference (clipped to N=%zu) has %zu", v->size(), i + 1, N, m.size());
                if (E::id(v->back()) != m.back())
                    bad("seq", "front-back", "back()=%d after append #%zu, reference %d", E::id(v->back()), i + 1, m.back());
            }
            verify();
        }

        void apply(const Op &o)
        {
            begin_op(o);
            iter_ctx() = flav() + ":" + op;
            fault_fired = false;
            switch (o.kind)
            {
            // single-element appends: when the element constructor throws nothing may have changed
            case S_PUSH_FRESH:
            {
                int id = next++;
                bool thrown;
                {
                    T x = E::make(id);
                    thrown = guarded([&] { v->push_back(x); });
                }
                if (!thrown && m.size() < N)
                    m.push_back(id);
                break;
            }
            case S_PUSH_ALIAS:
            {
                int id = m[o.a];
                if (!guarded([&] { v->push_back((*v)[o.a]); }) && m.size() < N)
                    m.push_back(id);
                break;
            }
            case S_EMPLACE_BACK:
            {
                int id = next++;
                if (!guarded([&] { v->emplace_back(E::arg(id)); }) && m.size() < N)
                    m.push_back(id);
                break;
            }
            case S_RESIZE:
            {
                if (guarded([&] { v->resize((size_t)o.a); }))
                {
                    exposed_live(v);
                    live_after_throw(v->size());
                    resync();
                }
                else
                    m.resize(std::min((size_t)o.a, N), E::default_id);
                break;
            }
            case S_ERASE_RANGE:
                if constexpr (has_erase<SV>)
                {
                    v->erase(v->begin() + o.a, v->begin() + o.b);
                    m.erase(m.begin() + o.a, m.begin() + o.b);
                }
                break;
            case S_CLEAR:
                v->clear();
                m.clear();
                break;
            case S_COPY_CTOR:
            {
                H w;
                const SV &src = *v;
                if (guarded([&] { w.create(o.a, [&](void *where) { return new (where) SV(src); }); }))
                {
                    w.release(); // the object never came to life; the source must be untouched (verified below)
                    break;
                }
                verify(w, m, 2 * m.size());
                verify(v, m, 2 * m.size());
                replace(w);
                boxed = o.a;
                break;
            }
            case S_MOVE_CTOR:
            {
                H w;
                SV &src = *v;
                if (guarded([&] { w.create(o.a, [&](void *where) { return new (where) SV(std::move(src)); }); }))
                {
                    w.release();
                    exposed_live(v); // some source elements may be moved-from now
                    live_after_throw(v->size());
                    resync();
                    break;
                }
                if (v->size() > N)
                    bad("bounds", "size>N", "moved-from source reports size()=%zu", v->size());
                // whatever the source still reports as its elements is what its destructor will destroy
                verify(w, m, m.size() + v->size());
                replace(w);
                boxed = o.a;
                break;
            }
            case S_COPY_ASSIGN_FROM:
            {
                std::vector<int> ids = fresh_ids(o.a);
                H t = make_other(ids);
                if (guarded([&] { *v = (const SV &)*t; }))
                {
                    exposed_live(v);
                    live_after_throw(v->size() + ids.size());
                    verify(t, ids, v->size() + ids.size()); // the source of a copy is untouched
                    t.destroy();
                    t.release();
                    resync();
                    break;
                }
                verify(v, ids, 2 * ids.size());
                verify(t, ids, 2 * ids.size());
                t.destroy();
                t.release();
                m = ids;
                break;
            }
            case S_COPY_ASSIGN_TO:
            {
                std::vector<int> ids = fresh_ids(o.a);
                H t = make_other(ids);
                if (guarded([&] { *t = (const SV &)*v; }))
                {
                    exposed_live(t);
                    live_after_throw(t->size() + m.size());
                    verify(v, m, t->size() + m.size());
                    t.destroy();
                    t.release();
                    break;
                }
                verify(t, m, 2 * m.size());
                verify(v, m, 2 * m.size());
                t.destroy();
                t.release();
                break;
            }
            case S_MOVE_ASSIGN_FROM:
            {
                std::vector<int> ids = fresh_ids(o.a);
                H t = make_other(ids);
                if (guarded([&] { *v = std::move(*t); }))
                {
                    exposed_live(v);
                    exposed_live(t);
                    live_after_throw(v->size() + t->size());
                    t.destroy();
                    t.release();
                    resync();
                    break;
                }
                if (t->size() > N)
                    bad("bounds", "size>N", "moved-from source reports size()=%zu", t->size());
                verify(v, ids, ids.size() + t->size());
                t.destroy();
                t.release();
                m = ids;
                break;
            }
            case S_MOVE_ASSIGN_TO:
            {
                std::vector<int> ids = fresh_ids(o.a);
                H t = make_other(ids);
                if (guarded([&] { *t = std::move(*v); }))
                {
                    exposed_live(v);
                    exposed_live(t);
                    live_after_throw(v->size() + t->size());
                    t.destroy();
                    t.release();
                    resync();
                    break;
                }
                if (v->size() > N)
                    bad("bounds", "size>N", "moved-from source reports size()=%zu", v->size());
                verify(t, m, m.size() + v->size());
                // continue with the target; the moved-from source is destroyed
                replace(t);
                boxed = !boxed;
                break;
            }
            case S_SELF_ASSIGN:
            {
                SV &r = *v;
                *v = (const SV &)r;
                break;
            }
            // constructors: when an element constructor throws the object never existed, the old container
            // is still the current one and nothing of the failed object may stay alive
            case S_CTOR_RANGE:
                if constexpr (has_range_ctor<SV, T>)
                {
                    std::vector<int> ids = fresh_ids(o.a);
                    H w;
                    bool thrown;
                    {
                        std::vector<T> src = mk(ids);
                        const T *f = src.data();
                        if (o.b == 0)
                        {
                            std::list<T> lst(src.begin(), src.end());
                            thrown = guarded([&] { w.create(!boxed, [&](void *where) { return new (where) SV(lst.begin(), lst.end()); }); });
                        }
                        else if (o.b == 1)
                            thrown = guarded([&] { w.create(!boxed, [&](void *where) { return new (where) SV(f, f + ids.size()); }); });
                        else if (o.b == 2)
                        {
                            // single-pass input range: what was read must be the prefix, and at most min(len, N) + 1 reads
                            InSrc<T> in{f, ids.size()};
                            InIt<T> first{&in, 0}, last{};
                            thrown = guarded([&] { w.create(!boxed, [&](void *where) { return new (where) SV(first, last); }); });
                            VF_OK("range constructor driven by a single-pass input iterator");
                        }
                        else
                        {
                            FwdIt<T> first{f}, last{f + ids.size()};
                            thrown = guarded([&] { w.create(!boxed, [&](void *where) { return new (where) SV(first, last); }); });
                        }
                        for (size_t i = 0; i < ids.size(); i++)
                            if (E::id(src[i]) != ids[i])
                                bad("seq", "source-modified", "source element %zu became %d", i, E::id(src[i]));
                    }
                    if (thrown)
                    {
                        w.release();
                        break;
                    }
                    replace(w);
                    boxed = !boxed;
                    m = clip(ids);
                }
                break;
            case S_CTOR_IL:
                if constexpr (has_il<SV, T>)
                {
                    std::vector<int> ids = fresh_ids(o.a);
                    H w;
                    if (create_il_n<0>(w, !boxed, ids))
                    {
                        w.release();
                        break;
                    }
                    replace(w);
                    boxed = !boxed;
                    m = clip(ids);
                }
                break;
            }
            if (fault_fired)
                VF_OK("an element constructor threw inside the operation");
            verify();
        }
        void finish()
        {
            op = "destructor";
            Tracked::at(op);
            v.destroy();
            if (!v.canaries_intact())
                bad("bounds", "canary", "a word next to the container object was overwritten by the destructor");
            v.release();
            if constexpr (E::tracked)
            {
                Tracked::check_all_destroyed();
                VF_OK("every element constructed was destroyed exactly once at the end of the history");
            }
        }
        // operation instances valid for the current size; `full`: every parameter value, else the corner values
        void gen_ops(std::vector<Op> &out, bool full) { gen_ops_for(m.size(), out, full); }
        static void gen_ops_for(size_t n_, std::vector<Op> &out, bool full)
        {
            out.clear();
            int n = (int)n_, NN = (int)N;
            auto uniq = [](std::vector<int> v) {
                std::sort(v.begin(), v.end());
                v.erase(std::unique(v.begin(), v.end()), v.end());
                std::vector<int> r;
                for (int x : v)
                    if (x >= 0)
                        r.push_back(x);
                return r;
            };
            std::vector<int> lens, sizes, others;
            if (full)
            {
                for (int k = 0; k <= 2 * NN; k++)
                    lens.push_back(k);
                for (int k = 0; k <= NN; k++)
                    others.push_back(k);
            }
            else
            {
                lens = uniq({0, n - 1, n + 1, NN - 1, NN, NN + 1, 2 * NN});
                others = uniq({0, 1, NN});
            }
            sizes = lens;
            out.push_back({S_PUSH_FRESH, 0, 0});
            out.push_back({S_EMPLACE_BACK, 0, 0});
            if (n)
                out.push_back({S_PUSH_ALIAS, full ? n / 2 : 0, 0});
            for (int k : sizes)
                out.push_back({S_RESIZE, k, 0});
            if (has_erase<SV>)
                for (int a = 0; a <= n; a++)
                    for (int b = a; b <= n; b++)
                        if (full || n <= 3 || a == 0 || b == n || b == a + 1)
                            out.push_back({S_ERASE_RANGE, a, b});
            out.push_back({S_CLEAR, 0, 0});
            out.push_back({S_COPY_CTOR, 0, 0});
            out.push_back({S_COPY_CTOR, 1, 0});
            out.push_back({S_MOVE_CTOR, 0, 0});
            out.push_back({S_MOVE_CTOR, 1, 0});
            for (int k : others)
            {
                out.push_back({S_COPY_ASSIGN_FROM, k, 0});
                out.push_back({S_COPY_ASSIGN_TO, k, 0});
                out.push_back({S_MOVE_ASSIGN_FROM, k, 0});
                out.push_back({S_MOVE_ASSIGN_TO, k, 0});
            }
            out.push_back({S_SELF_ASSIGN, 0, 0});
            for (int k : lens)
            {
                if (has_range_ctor<SV, T>)
                {
                    out.push_back({S_CTOR_RANGE, k, 1}); // const T*
                    out.push_back({S_CTOR_RANGE, k, 2}); // harness single-pass input iterator
                    if (full || k == NN + 1)
                    {
                        out.push_back({S_CTOR_RANGE, k, 0}); // std::list iterators
                        out.push_back({S_CTOR_RANGE, k, 3}); // harness forward iterator
                    }
                }
                if (has_il<SV, T>)
                    out.push_back({S_CTOR_IL, k, 0});
            }
        }
    };

    // (a) every history of `depth` operations (corner parameter values) from the empty container
    template <class T, size_t N> struct SVEnum
    {
        using Hs = SVHist<T, N>;
        static int depth() { return N <= 2 ? (vf::thorough() ? 4 : 3) : N == 3 ? (vf::thorough() ? 3 : 2) : 2; }
        // case = (placement, first operation[, slot of the second operation when depth >= 3]); the rest is
        // enumerated inside, so that one case stays a few thousand histories even at depth 4
        static const int SLOTS = 96;
        static uint64_t slots() { return depth() >= 3 ? SLOTS : 1; }
        static uint64_t count()
        {
            std::vector<Op> ops;
            Hs::gen_ops_for(0, ops, false);
            return ops.size() * 2 * slots();
        }
        static void rec(std::vector<Op> &prefix, int left, bool boxed, uint64_t &seqs)
        {
            // replay the prefix, list the next operations
            std::vector<Op> ops;
            {
                Hs h;
                h.start(boxed);
                for (auto &o : prefix)
                    h.apply(o);
                h.gen_ops(ops, false);
                h.finish();
                seqs++;
            }
            if (!left)
                return;
            for (auto &o : ops)
            {
                prefix.push_back(o);
                if (left == 1)
                {
                    Hs h;
                    h.start(boxed);
                    for (auto &p : prefix)
                        h.apply(p);
                    h.finish();
                    seqs++;
                }
                else
                    rec(prefix, left - 1, boxed, seqs);
                prefix.pop_back();
            }
        }
        static void run(uint64_t idx)
        {
            bool boxed = idx & 1;
            idx >>= 1;
            uint64_t slot = idx % slots();
            idx /= slots();
            std::vector<Op> ops, ops2;
            Hs::gen_ops_for(0, ops, false);
            if (idx >= ops.size())
                return;
            std::vector<Op> prefix{ops[idx]};
            uint64_t seqs = 0;
            if (slots() == 1)
                rec(prefix, depth() - 1, boxed, seqs);
            else
            {
                // the one-operation history itself (once), and the operations that can follow it
                {
                    Hs h;
                    h.start(boxed);
                    h.apply(ops[idx]);
                    h.gen_ops(ops2, false);
                    h.finish();
                    seqs += slot == 0;
                }
                if (ops2.size() > (size_t)SLOTS)
                    vf::fail("harness:enum-slots", "%zu second operations do not fit %d slots", ops2.size(), SLOTS);
                if (slot >= ops2.size())
                {
                    vf::count_bulk(seqs, seqs);
                    return;
                }
                prefix.push_back(ops2[slot]);
                rec(prefix, depth() - 2, boxed, seqs);
            }
            vf::count_bulk(seqs, seqs);
            if (vf::want_sample() && idx == 3 && slot == 0)
                vf::sample("enum: %s N=%zu first op %s(%d,%d), every continuation to depth %d", Hs::flav().c_str(), N, SNAME[ops[idx].kind], ops[idx].a,
                           ops[idx].b, depth());
        }
    };

    // (b) constructor arguments of every length 0..2N from every start size, followed by two operations
    template <class T, size_t N> struct SVCtor
    {
        using Hs = SVHist<T, N>;
        static uint64_t count() { return 2 * (N + 1); }
        static void run(uint64_t idx)
        {
            bool boxed = idx & 1;
            int start = (int)(idx >> 1);
            std::vector<Op> ops;
            uint64_t n = 0, over = 0;
            {
                Hs h;
                h.start(boxed);
                h.apply({S_RESIZE, start, 0});
                h.gen_ops(ops, true);
                h.finish();
            }
            for (auto &o : ops)
            {
                if (o.kind != S_CTOR_RANGE && o.kind != S_CTOR_IL && o.kind != S_RESIZE && o.kind != S_COPY_ASSIGN_FROM && o.kind != S_MOVE_ASSIGN_FROM &&
                    o.kind != S_COPY_ASSIGN_TO && o.kind != S_MOVE_ASSIGN_TO && o.kind != S_COPY_CTOR)
                    continue;
                Hs h;
                h.start(boxed);
                h.apply({S_RESIZE, start, 0});
                h.apply(o);
                VF_OK("input of every length 0..2N: prefix kept, excess dropped");
                h.apply({S_PUSH_FRESH, 0, 0});
                h.apply({S_EMPLACE_BACK, 0, 0});
                h.finish();
                n++;
                over += (size_t)o.a > N;
            }
            vf::count_bulk(n, over);
        }
    };

    // (c) seeded random histories
    template <class T, size_t N> struct SVRand
    {
        using Hs = SVHist<T, N>;
        static void run(uint64_t idx)
        {
            vf::Rng r(vf::seed(), 0xC14 + N, idx);
            Hs h;
            h.start(r.chance(1, 2));
            std::vector<Op> ops, pick;
            uint64_t hh = vf::mix(N, vf::hash_bytes(Hs::flav().data(), Hs::flav().size()));
            bool overfull = false;
            for (int step = 0; step < 40; step++)
            {
                h.gen_ops(ops, true);
                int kinds[S_NKINDS], nk = 0;
                bool present[S_NKINDS] = {false};
                for (auto &o : ops)
                    present[o.kind] = true;
                for (int k = 0; k < S_NKINDS; k++)
                    if (present[k])
                        kinds[nk++] = k;
                // pushes are what fills the container: make them twice as likely
                int k = r.chance(1, 4) ? (r.chance(1, 2) ? S_PUSH_FRESH : S_EMPLACE_BACK) : kinds[r.below(nk)];
                pick.clear();
                for (auto &o : ops)
                    if (o.kind == k)
                        pick.push_back(o);
                Op o = pick[r.below(pick.size())];
                if ((o.kind == S_PUSH_FRESH || o.kind == S_EMPLACE_BACK || o.kind == S_PUSH_ALIAS) && h.m.size() == N)
                    overfull = true;
                if ((o.kind == S_RESIZE || o.kind == S_CTOR_RANGE || o.kind == S_CTOR_IL) && (size_t)o.a > N)
                    overfull = true;
                if constexpr (Hs::throwing)
                    if (r.chance(1, 2))
                    {
                        h.fault_kind = 1 + (int)r.below(3);
                        h.fault_countdown = 1 + (int)r.below(N + 2);
                    }
                h.apply(o);
                if (h.fault_fired)
                    overfull = true; // a history with an injected fault counts as non-trivial
                hh = vf::mix(hh, vf::mix(o.kind, vf::mix(o.a, o.b)));
            }
            h.finish();
            vf::count_case(hh, overfull);
            if (vf::want_sample() && idx % 53 == 11)
                vf::sample("random: %s N=%zu %.400s", Hs::flav().c_str(), N, h.trace.c_str());
        }
    };

    // (d) T = Throwing: from every start size, every fault-relevant operation instance x fault kind x countdown,
    //     followed by further operations and the destructor
    template <class T, size_t N> struct SVFault
    {
        using Hs = SVHist<T, N>;
        static uint64_t count() { return 2 * (N + 1); }
        static bool relevant(int k)
        {
            return k == S_PUSH_FRESH || k == S_PUSH_ALIAS || k == S_EMPLACE_BACK || k == S_RESIZE || k == S_COPY_CTOR || k == S_MOVE_CTOR ||
                   k == S_COPY_ASSIGN_FROM || k == S_COPY_ASSIGN_TO || k == S_MOVE_ASSIGN_FROM || k == S_MOVE_ASSIGN_TO || k == S_CTOR_RANGE || k == S_CTOR_IL;
        }
        static void run(uint64_t idx)
        {
            bool boxed = idx & 1;
            int start = (int)(idx >> 1);
            std::vector<Op> ops;
            Hs::gen_ops_for((size_t)start, ops, false);
            uint64_t n = 0, fired = 0;
            for (auto &o : ops)
            {
                if (!relevant(o.kind))
                    continue;
                for (int kind = 1; kind <= 3; kind++)
                    for (int c = 1; c <= (int)N + 2; c++)
                    {
                        Hs h;
                        h.start(boxed);
                        for (int i = 0; i < start; i++)
                            h.apply({S_PUSH_FRESH, 0, 0});
                        h.fault_kind = kind;
                        h.fault_countdown = c;
                        h.apply(o);
                        bool f = h.fault_fired;
                        // the container must remain fully usable
                        h.apply({S_PUSH_FRESH, 0, 0});
                        h.apply({S_RESIZE, (int)h.m.size() / 2, 0});
                        h.apply({S_EMPLACE_BACK, 0, 0});
                        h.finish();
                        n++;
                        fired += f;
                    }
            }
            vf::count_bulk(n, fired);
            if (vf::want_sample() && N == 3 && start == 2)
                vf::sample("faults: %s N=%zu start size %d: every operation x {value,copy,move} constructor throwing at its 1st..%zu-th call: %llu histories, %llu with a throw",
                           Hs::flav().c_str(), N, start, N + 2, (unsigned long long)n, (unsigned long long)fired);
        }
    };

    // (e) boundary capacities (powers of two and their neighbours): fill to N-1, N, overfill, copy/move, resize around N and to 2N,
    //     clear and refill, erase, construction from ranges / initializer lists around N, assignment - every step compared
    template <class T, size_t N> struct SVBoundary
    {
        using Hs = SVHist<T, N>;
        using SV = typename Hs::SV;
        static void run(bool boxed)
        {
            int n = (int)N;
            Hs h;
            h.start(boxed);
            // the fill comes first: a size counter that cannot represent N shows here, before anything can loop on it
            h.bulk_push(N - 1);
            h.bulk_push(1);
            VF_OK("boundary capacity: filled to exactly N");
            h.bulk_push(3);
            h.apply({S_COPY_CTOR, !boxed, 0});
            h.apply({S_COPY_ASSIGN_TO, n, 0});
            h.apply({S_MOVE_CTOR, boxed, 0});
            for (int k : {n - 1, n, n + 1, 2 * n, 0, n, 1})
                h.apply({S_RESIZE, k, 0});
            h.apply({S_CLEAR, 0, 0});
            h.bulk_push(N + 1);
            if (has_erase<SV> && N >= 3)
                h.apply({S_ERASE_RANGE, 1, n - 1});
            h.apply({S_RESIZE, n, 0});
            for (int k : {n - 1, n, n + 1, 2 * n})
                for (int kind : {1, 2})
                    if (has_range_ctor<SV, T>)
                    {
                        h.apply({S_CTOR_RANGE, k, kind});
                        h.apply({S_PUSH_FRESH, 0, 0});
                    }
            for (int k : {n - 1, n, n + 1})
                if (has_il<SV, T> && (size_t)k <= Hs::IL_MAX)
                    h.apply({S_CTOR_IL, k, 0});
            h.apply({S_COPY_ASSIGN_FROM, n, 0});
            h.apply({S_MOVE_ASSIGN_FROM, n, 0});
            h.apply({S_PUSH_ALIAS, 0, 0});
            h.apply({S_MOVE_ASSIGN_TO, n - 1, 0});
            h.apply({S_EMPLACE_BACK, 0, 0});
            h.apply({S_EMPLACE_BACK, 0, 0});
            h.finish();
            vf::count_bulk(1, 1);
            if (vf::want_sample() && N == 256 && !boxed)
                vf::sample("boundary: %s N=%zu %.300s", Hs::flav().c_str(), N, h.trace.c_str());
        }
    };
    // quick: N in {15,16,17,127,128,255,256,257}; thorough adds {65535,65536,65537} for T = int
    template <class T> struct BoundaryOverN
    {
        static uint64_t count() { return 2 * (8 + (std::is_same_v<T, int> && vf::thorough() ? 3 : 0)); }
        static void run(uint64_t idx)
        {
            bool boxed = idx & 1;
            switch (idx >> 1)
            {
            case 0:
                return SVBoundary<T, 256>::run(boxed); // the most telling capacities first
            case 1:
                return SVBoundary<T, 255>::run(boxed);
            case 2:
                return SVBoundary<T, 257>::run(boxed);
            case 3:
                return SVBoundary<T, 128>::run(boxed);
            case 4:
                return SVBoundary<T, 127>::run(boxed);
            case 5:
                return SVBoundary<T, 16>::run(boxed);
            case 6:
                return SVBoundary<T, 15>::run(boxed);
            case 7:
                return SVBoundary<T, 17>::run(boxed);
            default:
                if constexpr (std::is_same_v<T, int>)
                {
                    if ((idx >> 1) == 8)
                        return SVBoundary<T, 65536>::run(boxed);
                    if ((idx >> 1) == 9)
                        return SVBoundary<T, 65535>::run(boxed);
                    return SVBoundary<T, 65537>::run(boxed);
                }
            }
        }
    };

    // (f) element types with mixed triviality, N in {3,5}: the length / assignment sweep (every size assigned to
    //     every other size) and random histories
    template <class T> struct MixedTriv
    {
        static uint64_t nrand() { return vf::thorough() ? 40000 : 400; }
        static uint64_t count() { return SVCtor<T, 3>::count() + SVCtor<T, 5>::count() + nrand(); }
        static void run(uint64_t idx)
        {
            if (idx < SVCtor<T, 3>::count())
                return SVCtor<T, 3>::run(idx);
            idx -= SVCtor<T, 3>::count();
            if (idx < SVCtor<T, 5>::count())
                return SVCtor<T, 5>::run(idx);
            idx -= SVCtor<T, 5>::count();
            VF_OK("element types with trivial assignment but non-trivial lifetime (and the reverse)");
            if (idx & 1)
                return SVRand<T, 3>::run(idx);
            SVRand<T, 5>::run(idx);
        }
    };

    // dispatch one suite index over N in {1,2,3,5,8}
    template <class T, template <class, size_t> class S> struct OverN
    {
        static uint64_t count() { return S<T, 1>::count() + S<T, 2>::count() + S<T, 3>::count() + S<T, 5>::count() + S<T, 8>::count(); }
        static void run(uint64_t idx)
        {
            if (idx < S<T, 1>::count())
                return S<T, 1>::run(idx);
            idx -= S<T, 1>::count();
            if (idx < S<T, 2>::count())
                return S<T, 2>::run(idx);
            idx -= S<T, 2>::count();
            if (idx < S<T, 3>::count())
                return S<T, 3>::run(idx);
            idx -= S<T, 3>::count();
            if (idx < S<T, 5>::count())
                return S<T, 5>::run(idx);
            idx -= S<T, 5>::count();
            S<T, 8>::run(idx);
        }
    };
    template <class T> struct RandOverN
    {
        static uint64_t count() { return vf::thorough() ? 170000 : 1700; }
        static void run(uint64_t idx)
        {
            switch (idx % 5)
            {
            case 0:
                return SVRand<T, 1>::run(idx);
            case 1:
                return SVRand<T, 2>::run(idx);
            case 2:
                return SVRand<T, 3>::run(idx);
            case 3:
                return SVRand<T, 5>::run(idx);
            default:
                return SVRand<T, 8>::run(idx);
            }
        }
    };
} // namespace c14

#define C14_SV_SUITES(T, tag)                                                                                  \
    VF_SUITE(enumerate_##tag, (c14::OverN<T, c14::SVEnum>::count), (c14::OverN<T, c14::SVEnum>::run))          \
    VF_SUITE(ctor_lengths_##tag, (c14::OverN<T, c14::SVCtor>::count), (c14::OverN<T, c14::SVCtor>::run))       \
    VF_SUITE(random_##tag, (c14::RandOverN<T>::count), (c14::RandOverN<T>::run))
#define C14_SV_FAULT_SUITES(tag)                                                                                                 \
    VF_SUITE(faults_enumerate_##tag, (c14::OverN<c14::Throwing, c14::SVFault>::count), (c14::OverN<c14::Throwing, c14::SVFault>::run)) \
    VF_SUITE(faults_random_##tag, (c14::RandOverN<c14::Throwing>::count), (c14::RandOverN<c14::Throwing>::run))
#define C14_SV_BOUNDARY_SUITES(T, tag) VF_SUITE(boundary_##tag, (c14::BoundaryOverN<T>::count), (c14::BoundaryOverN<T>::run))
#define C14_SV_MIXED_SUITES(T, tag) VF_SUITE(mixed_triviality_##tag, (c14::MixedTriv<T>::count), (c14::MixedTriv<T>::run))
