// C14: static_vector<Throwing, N>: element constructors that throw on schedule (fault injection)
#include "c14.h"
C14_SV_FAULT_SUITES(throwing)
