// C14: static_vector<vf::Tracked, N> at boundary capacities N in {15,16,17,127,128,255,256,257}
#include "c14.h"
C14_SV_BOUNDARY_SUITES(vf::Tracked, tracked)
