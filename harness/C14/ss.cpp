// C14: static_string<N> against a std::string clipped to N; also the main TU of the unit.
#include <cassert> // before vf.h: vf.h defines __assert_fail and must see the libc declaration first
#ifndef C14_SS_AS_HEADER // bnd_str.cpp includes this file for the SSHist templates only
#define VF_MAIN
#endif
#include "c14.h"

namespace c14
{
    enum XKind
    {
        X_CTOR_CSTR,
        X_CTOR_PTRLEN,
        X_PUSH,
        X_PLUS_EQ,
        X_CLEAR,
        X_COPY_CTOR,
        X_COPY_ASSIGN_FROM,
        X_SPLIT,
        X_NKINDS
    };
    static const char *const XNAME[X_NKINDS] = {"ctor(cstr)", "ctor(ptr,len)", "push_back", "operator+=", "clear", "copy-ctor", "copy-assign", "split"};
    template <class SS> constexpr bool has_ptrlen = std::is_constructible_v<SS, const char *, size_t>;
    template <class SS> constexpr bool has_pluseq = requires(SS &x) { x += 'c'; };
    template <class SS> constexpr bool has_clear = requires(SS &x) { x.clear(); };
    template <class SS> constexpr bool has_split = requires(SS &x) { x.template split<2, 2>(','); };
    template <class SS> constexpr bool has_index = requires(SS &x) { x.data(); }; // the twin; operator[] of static_string.h does not instantiate

    static std::string text(size_t len, int salt)
    {
        static const char alpha[] = "ab,cde,,f";
        std::string s;
        for (size_t i = 0; i < len; i++)
            s += alpha[(i * 7 + salt * 3 + (i >> 2)) % (sizeof alpha - 1)];
        return s;
    }

    template <size_t N> struct SSHist
    {
        using SS = igris::static_string<N>;
        using H = Holder<SS>;
        H s;
        std::string m;
        bool boxed = false;
        const char *op = "?";
        std::string trace;
        static const std::string &flav()
        {
            static const std::string f = C14_FLAV "static_string"; // N goes into the detail, not the key
            return f;
        }
        [[noreturn]] __attribute__((format(printf, 4, 5))) void bad(const char *monitor, const char *clause, const char *fmt, ...)
        {
            char key[vf::KEY_LEN], det[900];
            snprintf(key, sizeof key, "%s:%s:%s:%s", monitor, flav().c_str(), op, clause);
            va_list ap;
            va_start(ap, fmt);
            vsnprintf(det, sizeof det, fmt, ap);
            va_end(ap);
            vf::fail(key, "N=%zu: %s | placement=%s | history: %s", N, det, boxed ? "between canaries" : "alone in an exact heap block", trace.c_str());
        }
        void begin_op(int kind, int a, int b)
        {
            op = XNAME[kind];
            char tag[160];
            snprintf(tag, sizeof tag, "%s:%s", flav().c_str(), op);
            vf::cls(tag);
            char buf[96];
            snprintf(buf, sizeof buf, "%s%s(%d,%d)[n=%zu]", trace.empty() ? "" : " ; ", op, a, b, m.size());
            trace += buf;
            if (vf::verbose())
                printf("  op %s a=%d b=%d   N=%zu model=\"%s\"\n", op, a, b, N, m.c_str());
            vf::state(vf::mix(1000 + N * 16 + kind, m.size()));
        }
        void start(bool boxed_)
        {
            boxed = boxed_;
            m.clear();
            trace.clear();
            op = "ctor()";
            vf::cls((flav() + ":ctor()").c_str());
            s.create(boxed, [](void *w) { return new (w) SS; });
            verify(s, m);
        }
        void verify(H &h, const std::string &mm)
        {
            SS &x = *h;
            const SS &cx = x;
            if (!h.canaries_intact())
                bad("bounds", "canary", "a word next to the string object was overwritten (N=%zu)", N);
            VF_OK("string: memory next to the object is untouched (canaries / exact heap block)");
            if (x.size() > N)
                bad("bounds", "size>N", "size()=%zu exceeds the capacity N=%zu", (size_t)x.size(), N);
            VF_OK("string: size() <= N");
            if (x.size() != mm.size())
                bad("seq", "size", "size()=%zu, reference (clipped to N=%zu) has %zu", (size_t)x.size(), N, mm.size());
            if (x.room() != N - mm.size())
                bad("seq", "room", "room()=%zu, expected %zu", (size_t)x.room(), N - mm.size());
            const char *c = cx.c_str();
            if (strlen(c) != mm.size() || mm != c)
                bad("seq", "c_str", "c_str()=\"%s\" (strlen %zu), reference \"%s\"", vf::esc(c, strnlen(c, 2 * N + 2)).c_str(), strlen(c), mm.c_str());
            if ((size_t)(x.end() - x.begin()) != mm.size() || std::string(x.begin(), (size_t)(x.end() - x.begin())) != mm)
                bad("seq", "content", "begin()..end() differs from the reference \"%s\"", mm.c_str());
            if constexpr (has_index<SS>)
                for (size_t i = 0; i < mm.size(); i++)
                    if (x[i] != mm[i] || cx[i] != mm[i] || x.data()[i] != mm[i])
                        bad("seq", "index", "[%zu]='%c', reference '%c'", i, x[i], mm[i]);
            if (!h.canaries_intact())
                bad("bounds", "canary", "c_str() wrote next to the string object (N=%zu)", N);
            VF_OK("string: size, room, c_str, begin..end == reference clipped to N");
        }
        // many push_back calls with an O(1) size check per step and one full comparison at the end
        void bulk_push(size_t count)
        {
            op = "fill(push_back)";
            vf::cls((flav() + ":" + op).c_str());
            char buf[96];
            snprintf(buf, sizeof buf, "%sfill x%zu[n=%zu]", trace.empty() ? "" : " ; ", count, m.size());
            trace += buf;
            if (vf::verbose())
                printf("  op %zu x push_back   N=%zu size=%zu\n", count, N, m.size());
            for (size_t i = 0; i < count; i++)
            {
                char c = "ab,cde,,f"[(i + m.size()) % 9];
                s->push_back(c);
                if (m.size() < N)
                    m += c;
                if (s->size() != m.size())
                    bad("seq", "size", "size()=%zu after push_back #%zu, reference (clipped to N=%zu) has %zu", (size_t)s->size(), i + 1, N, m.size());
            }
            verify(s, m);
        }
        void replace(H &w)
        {
            s.destroy();
            s.release();
            s = w;
        }
        static std::string clip(std::string x) { return x.size() > N ? x.substr(0, N) : x; }
        template <size_t V, size_t S> void split_check()
        {
            if constexpr (has_split<SS>)
            {
                auto out = s->template split<V, S>(',');
                std::vector<std::string> want;
                size_t i = 0;
                while (i < m.size())
                {
                    while (i < m.size() && m[i] == ',')
                        i++;
                    size_t j = i;
                    while (j < m.size() && m[j] != ',')
                        j++;
                    if (j > i && want.size() < V)
                        want.push_back(m.substr(i, std::min(j - i, S)));
                    i = j;
                }
                if (out.size() > V)
                    bad("bounds", "size>N", "split<%zu,%zu> returned %zu tokens", V, S, (size_t)out.size());
                if (out.size() != want.size())
                    bad("seq", "split-count", "split<%zu,%zu> of \"%s\" gave %zu tokens, expected %zu", V, S, m.c_str(), (size_t)out.size(), want.size());
                for (size_t k = 0; k < want.size(); k++)
                {
                    if (out[k].size() > S)
                        bad("bounds", "size>N", "split<%zu,%zu> token %zu has size()=%zu", V, S, k, (size_t)out[k].size());
                    if (want[k] != out[k].c_str())
                        bad("seq", "split-token", "split<%zu,%zu> of \"%s\": token %zu = \"%s\", expected \"%s\"", V, S, m.c_str(), k,
                            vf::esc(out[k].c_str(), strnlen(out[k].c_str(), 2 * S + 2)).c_str(), want[k].c_str());
                }
                VF_OK("string: split<V,S> keeps the first V tokens, each clipped to S");
            }
        }
        void apply(int kind, int a, int b = 0)
        {
            begin_op(kind, a, b);
            switch (kind)
            {
            case X_CTOR_CSTR:
            {
                std::string t = text((size_t)a, b);
                H w;
                {
                    vf::ExactStr src(t, (unsigned)(a % 3)); // no byte behind the terminator is readable
                    w.create(!boxed, [&](void *where) { return new (where) SS(src.cc()); });
                }
                replace(w);
                boxed = !boxed;
                m = clip(t);
                break;
            }
            case X_CTOR_PTRLEN:
                if constexpr (has_ptrlen<SS>)
                {
                    std::string t = text((size_t)a, b);
                    H w;
                    {
                        vf::Exact src(t.data(), t.size(), (unsigned)(a % 3)); // exactly len bytes, no terminator
                        w.create(!boxed, [&](void *where) { return new (where) SS(src.cc(), (size_t)a); });
                    }
                    replace(w);
                    boxed = !boxed;
                    m = clip(t);
                }
                break;
            case X_PUSH:
                s->push_back((char)a);
                if (m.size() < N)
                    m += (char)a;
                break;
            case X_PLUS_EQ:
                if constexpr (has_pluseq<SS>)
                {
                    SS &r = (*s += (char)a);
                    if (&r != s.p)
                        bad("seq", "returned-reference", "operator+= did not return *this");
                    if (m.size() < N)
                        m += (char)a;
                }
                break;
            case X_CLEAR:
                if constexpr (has_clear<SS>)
                {
                    s->clear();
                    m.clear();
                }
                break;
            case X_COPY_CTOR:
            {
                H w;
                const SS &src = *s;
                w.create(a, [&](void *where) { return new (where) SS(src); });
                verify(w, m);
                verify(s, m);
                replace(w);
                boxed = a;
                break;
            }
            case X_COPY_ASSIGN_FROM:
            {
                std::string t = clip(text((size_t)a, b));
                H o;
                o.create(!boxed, [](void *w) { return new (w) SS; });
                for (char ch : t)
                    o->push_back(ch);
                *s = (const SS &)*o;
                verify(o, t);
                o.destroy();
                o.release();
                m = t;
                break;
            }
            case X_SPLIT:
                if (a == 0)
                    split_check<2, 2>();
                else if (a == 1)
                    split_check<3, 4>();
                else
                    split_check<1, 1>();
                break;
            }
            verify(s, m);
        }
        void finish()
        {
            op = "destructor";
            s.destroy();
            if (!s.canaries_intact())
                bad("bounds", "canary", "a word next to the string object was overwritten by the destructor");
            s.release();
        }
    };

    // (a) constructor input of every length 0..2N (and a few longer), both constructors, both placements, then a few pushes
    template <size_t N> struct SSCtor
    {
        using Hs = SSHist<N>;
        static uint64_t count() { return 2; }
        static void run(uint64_t idx)
        {
            bool boxed = idx & 1;
            uint64_t n = 0, over = 0;
            std::vector<int> lens;
            for (size_t l = 0; l <= 2 * N; l++)
                lens.push_back((int)l);
            lens.push_back((int)(3 * N + 8));
            for (int kind : {X_CTOR_CSTR, X_CTOR_PTRLEN})
                for (int len : lens)
                    for (int salt = 0; salt < 2; salt++)
                    {
                        if (kind == X_CTOR_PTRLEN && !has_ptrlen<typename Hs::SS>)
                            continue;
                        Hs h;
                        h.start(boxed);
                        h.apply(kind, len, salt);
                        VF_OK("string: constructor input of every length 0..2N: prefix kept, excess dropped");
                        h.apply(X_PUSH, 'x');
                        h.apply(X_PLUS_EQ, 'y');
                        h.apply(X_SPLIT, salt);
                        h.apply(X_COPY_CTOR, salt);
                        h.apply(X_PUSH, 'z');
                        h.finish();
                        n++;
                        over += (size_t)len > N;
                    }
            vf::count_bulk(n, over);
            if (vf::want_sample() && N == 5)
                vf::sample("ctor lengths: %s N=%zu lengths 0..%zu and %zu through (const char*) and (ptr,len), then push/+=/split/copy", Hs::flav().c_str(), N, 2 * N,
                           3 * N + 8);
        }
    };
    // (b) every sequence of 5 symbols over a small alphabet of operations
    template <size_t N> struct SSEnum
    {
        using Hs = SSHist<N>;
        static const int SYMS = 8;
        static uint64_t count() { return 2 * SYMS; }
        static void sym(Hs &h, int x)
        {
            switch (x)
            {
            case 0:
                return h.apply(X_PUSH, 'a');
            case 1:
                return h.apply(X_PUSH, ',');
            case 2:
                return h.apply(X_PLUS_EQ, 'b');
            case 3:
                return h.apply(X_CLEAR, 0);
            case 4:
                return h.apply(X_COPY_CTOR, 1);
            case 5:
                return h.apply(X_CTOR_CSTR, (int)N - 1, 1);
            case 6:
                return h.apply(X_CTOR_CSTR, (int)N + 1, 0);
            default:
                return h.apply(X_COPY_ASSIGN_FROM, (int)N, 1);
            }
        }
        static void run(uint64_t idx)
        {
            bool boxed = idx & 1;
            int s0 = (int)(idx >> 1);
            int tail = vf::thorough() ? 5 : 4;
            uint64_t total = 1;
            for (int i = 0; i < tail; i++)
                total *= SYMS;
            for (uint64_t t = 0; t < total; t++)
            {
                Hs h;
                h.start(boxed);
                sym(h, s0);
                uint64_t x = t;
                for (int i = 0; i < tail; i++, x /= SYMS)
                    sym(h, (int)(x % SYMS));
                h.apply(X_SPLIT, (int)(t % 3));
                h.finish();
            }
            vf::count_bulk(total, total);
        }
    };
    // (c) random histories
    template <size_t N> struct SSRand
    {
        using Hs = SSHist<N>;
        static void run(uint64_t idx)
        {
            vf::Rng r(vf::seed(), 0x5714 + N, idx);
            Hs h;
            h.start(r.chance(1, 2));
            uint64_t hh = vf::mix(N, 0x55);
            bool over = false;
            for (int step = 0; step < 40; step++)
            {
                int kind = r.chance(1, 2) ? (r.chance(1, 2) ? X_PUSH : X_PLUS_EQ) : (int)r.below(X_NKINDS);
                int a = 0, b = r.below(4);
                switch (kind)
                {
                case X_CTOR_CSTR:
                case X_CTOR_PTRLEN:
                    a = r.range(0, 2 * (int)N + 2);
                    over |= (size_t)a > N;
                    break;
                case X_COPY_ASSIGN_FROM:
                    a = r.range(0, (int)N);
                    break;
                case X_PUSH:
                case X_PLUS_EQ:
                    a = "ab,cz"[r.below(5)];
                    over |= h.m.size() == N;
                    break;
                default:
                    a = r.below(3);
                    break;
                }
                if (kind == X_COPY_CTOR)
                    a &= 1;
                h.apply(kind, a, b);
                hh = vf::mix(hh, vf::mix(kind, vf::mix(a, b)));
            }
            h.finish();
            vf::count_case(hh, over);
            if (vf::want_sample() && idx % 67 == 5)
                vf::sample("random: %s N=%zu %.300s", Hs::flav().c_str(), N, h.trace.c_str());
        }
    };
    template <template <size_t> class S> struct StrOverN
    {
        static uint64_t count() { return S<1>::count() + S<2>::count() + S<3>::count() + S<5>::count() + S<8>::count() + S<24>::count(); }
        static void run(uint64_t idx)
        {
            if (idx < S<1>::count())
                return S<1>::run(idx);
            idx -= S<1>::count();
            if (idx < S<2>::count())
                return S<2>::run(idx);
            idx -= S<2>::count();
            if (idx < S<3>::count())
                return S<3>::run(idx);
            idx -= S<3>::count();
            if (idx < S<5>::count())
                return S<5>::run(idx);
            idx -= S<5>::count();
            if (idx < S<8>::count())
                return S<8>::run(idx);
            idx -= S<8>::count();
            S<24>::run(idx);
        }
    };
    static uint64_t ss_rand_count() { return vf::thorough() ? 120000 : 1800; }
    static void ss_rand_run(uint64_t idx)
    {
        switch (idx % 6)
        {
        case 0:
            return SSRand<1>::run(idx);
        case 1:
            return SSRand<2>::run(idx);
        case 2:
            return SSRand<3>::run(idx);
        case 3:
            return SSRand<5>::run(idx);
        case 4:
            return SSRand<8>::run(idx);
        default:
            return SSRand<24>::run(idx);
        }
    }
} // namespace c14
#ifndef C14_SS_AS_HEADER
VF_SUITE(string_ctor_lengths, (c14::StrOverN<c14::SSCtor>::count), (c14::StrOverN<c14::SSCtor>::run))
VF_SUITE(string_enumerate, (c14::StrOverN<c14::SSEnum>::count), (c14::StrOverN<c14::SSEnum>::run))
VF_SUITE(string_random, c14::ss_rand_count, c14::ss_rand_run)

extern "C" void vf_setup()
{
    using SV = igris::static_vector<int, 2>;
    using SS = igris::static_string<2>;
    for (const char *c : {"memory next to the object is untouched (canaries / exact heap block)", "size() <= N",
                          "size, room, begin..end, [], data, front, back == reference clipped to N",
                          "no operation touched a non-live element (Tracked registry)", "live element objects == elements the containers hold",
                          "every element constructed was destroyed exactly once at the end of the history",
                          "input of every length 0..2N: prefix kept, excess dropped",
                          "string: memory next to the object is untouched (canaries / exact heap block)", "string: size() <= N",
                          "string: size, room, c_str, begin..end == reference clipped to N",
                          "string: constructor input of every length 0..2N: prefix kept, excess dropped"})
        vf::require(c);
    for (const char *c : {"an element constructor threw inside the operation",
                          "after a throwing element constructor: exposed elements are live objects, live == size(), size() <= N"})
        vf::require(c);
    if (c14::has_range_ctor<SV, int>)
        vf::require("range constructor driven by a single-pass input iterator");
    vf::require("boundary capacity: filled to exactly N");
    vf::require("element types with trivial assignment but non-trivial lifetime (and the reverse)");
    vf::require("string boundary capacity: filled to exactly N");
    if (c14::has_split<SS>)
        vf::require("string: split<V,S> keeps the first V tokens, each clipped to S");
    (void)sizeof(SV);
}
#endif // C14_SS_AS_HEADER
