// C14: static_vector<vf::Tracked, N> suites (one TU per element type so that the unit compiles in parallel)
#include "c14.h"
C14_SV_SUITES(vf::Tracked, tracked)
