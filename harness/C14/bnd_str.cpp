// C14: static_string<N> at boundary capacities N in {15,16,17,127,128,255,256,257}; thorough: {65535,65536,65537}
#define C14_SS_AS_HEADER
#include "ss.cpp"

namespace c14
{
    template <size_t N> struct SSBoundary
    {
        static void run(bool boxed)
        {
            using Hs = SSHist<N>;
            int n = (int)N;
            Hs h;
            h.start(boxed);
            // the fill comes first: a size counter that cannot represent N shows here
            h.bulk_push(N - 1);
            h.bulk_push(1);
            VF_OK("string boundary capacity: filled to exactly N");
            h.bulk_push(2);
            h.apply(X_COPY_CTOR, !boxed);
            h.apply(X_PLUS_EQ, 'q');
            for (int len : {n - 1, n, n + 1, 2 * n})
                for (int kind : {X_CTOR_CSTR, X_CTOR_PTRLEN})
                {
                    h.apply(kind, len, 1);
                    h.apply(X_PUSH, 'x');
                    h.apply(X_SPLIT, len % 3);
                }
            h.apply(X_CLEAR, 0);
            h.bulk_push(N + 1);
            h.apply(X_COPY_ASSIGN_FROM, n, 1);
            h.apply(X_PUSH, 'y');
            h.finish();
            vf::count_bulk(1, 1);
            if (vf::want_sample() && N == 256 && !boxed)
                vf::sample("string boundary: %s N=%zu %.300s", Hs::flav().c_str(), N, h.trace.c_str());
        }
    };
    static uint64_t ssb_count() { return 2 * (8 + (vf::thorough() ? 3 : 0)); }
    static void ssb_run(uint64_t idx)
    {
        bool boxed = idx & 1;
        switch (idx >> 1)
        {
        case 0:
            return SSBoundary<256>::run(boxed); // the most telling capacities first
        case 1:
            return SSBoundary<255>::run(boxed);
        case 2:
            return SSBoundary<257>::run(boxed);
        case 3:
            return SSBoundary<128>::run(boxed);
        case 4:
            return SSBoundary<127>::run(boxed);
        case 5:
            return SSBoundary<16>::run(boxed);
        case 6:
            return SSBoundary<15>::run(boxed);
        case 7:
            return SSBoundary<17>::run(boxed);
        case 8:
            return SSBoundary<65536>::run(boxed);
        case 9:
            return SSBoundary<65535>::run(boxed);
        default:
            return SSBoundary<65537>::run(boxed);
        }
    }
} // namespace c14
VF_SUITE(string_boundary, c14::ssb_count, c14::ssb_run)
