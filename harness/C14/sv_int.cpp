// C14: static_vector<int, N> suites (one TU per element type so that the unit compiles in parallel)
#include "c14.h"
C14_SV_SUITES(int, int)
// element types with mixed triviality (kept in this TU: static_vector<int> is the cheapest one to compile)
C14_SV_MIXED_SUITES(c14::TrivAssign, trivassign)
C14_SV_MIXED_SUITES(c14::TrivLife, trivlife)
