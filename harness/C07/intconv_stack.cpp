// C07 (plain unit, no sanitizer): renderers and parsers from a thread with a SMALL stack (64 / 128 KiB), the parsers on
// very long texts (leading zeros / leading blanks of 64 KiB and 1.5 MiB). A converter that copies its input to a scratch
// area on the stack works for every short text and overflows for a long one: small-stack:<routine>:crash.
#define VF_MAIN
#include "vf.h"
#include "small_stack.h"
#include <igris/defs/vt100.h>
#include <igris/dprint/dprint.h>
#include <igris/util/numconvert.h>
#include <climits>
#include <string>
#include "c07_refs.h"

extern "C"
{
    char *igc_itoa(int num, char *buf, unsigned short base);
    char *igc_utoa(unsigned num, char *buf, unsigned short base);
    char *igc_ltoa(long num, char *buf, unsigned short base);
    char *igc_ultoa(unsigned long num, char *buf, unsigned short base);
    long igc_atol(const char *);
    int igc_atoi(const char *);
}
static char g_cap[128];
static size_t g_capn;
extern "C" void debug_putchar(char c)
{
    if (g_capn < sizeof g_cap - 1)
        g_cap[g_capn++] = c;
}
extern "C" void debug_write(const char *c, int n)
{
    for (int i = 0; i < n; i++)
        debug_putchar(c[i]);
}
static const char *RNAME[12] = {"igris_i64toa", "igris_u64toa", "itoa/utoa/ltoa/ultoa", "debug_printdec/hex/bin", "vt100_left", "igris_atoi64", "igris_atou64",
                                "igris_atoi32", "igris_atou32", "igris_atoi16/atoi8/atou16/atou8", "atol", "atoi"};
static bool ci_eq(const char *a, const std::string &b)
{
    if (strlen(a) != b.size())
        return false;
    for (size_t i = 0; i < b.size(); i++)
        if (tolower((unsigned char)a[i]) != b[i])
            return false;
    return true;
}
static std::string rt(int64_t v, unsigned base)
{
    char t[72];
    ref_text(mag_of(v), v < 0, base, t);
    return t;
}
static std::string ut(uint64_t v, unsigned base)
{
    char t[72];
    ref_text(v, false, base, t);
    return t;
}
static uint64_t ss_count() { return 2 * 2 * 3; }
static void ss_run(uint64_t c)
{
    size_t pad = (c % 2 ? 1536u << 10 : 64u << 10) + (size_t)(vf::seed() % 5), stack = (c / 2) % 2 ? 128 << 10 : 64 << 10;
    static const unsigned BASES[3] = {10, 16, 36};
    unsigned base = BASES[c / 4];
    vf::Rng r(vf::seed(), 0xC075, c);
    int64_t sv = (int64_t)(r.next() | 1ull << 62) * (r.chance(1, 2) ? 1 : -1);
    uint64_t uv = r.next() | 1ull << 63;
    // long texts: optional sign, `pad` leading zeros, the digits, one terminator
    std::string zeros(pad, '0');
    std::string s64 = (sv < 0 ? "-" : "") + zeros + rt(sv < 0 ? -sv : sv, base) + ";", u64 = zeros + ut(uv, base) + " ";
    std::string s32 = "-" + zeros + ut(2147483648u, base), u32 = zeros + ut(4294967295u, base) + "{";
    std::string s16 = "-" + zeros + ut(32768, base), u8 = zeros + ut(255, base);
    std::string al = std::string(pad, ' ') + "-" + zeros + "9223372036854775807,", ai = std::string(pad, '\t') + zeros + "2147483647";
    vf::cls("small-stack");
    if (vf::verbose())
        printf("  base %u, %zu leading zeros / blanks, thread stack %zu KiB\n", base, pad, stack >> 10);
    SmallStackOutcome o = run_small_stack(stack, [&](SmallStackShared &sh) {
        auto chk = [&](int i, bool ok) { if (!ok) sh.bad |= 1ul << i; };
        char b[80];
        char *e;
        sh.current = 0, chk(0, igris_i64toa(sv, b, (uint8_t)base) == b + rt(sv, base).size() && ci_eq(b, rt(sv, base)));
        sh.current = 1, chk(1, igris_u64toa(uv, b, (uint8_t)base) == b + ut(uv, base).size() && ci_eq(b, ut(uv, base)));
        sh.current = 2;
        chk(2, igc_itoa(INT_MIN, b, (unsigned short)base) == b && ci_eq(b, rt(INT_MIN, base)));
        chk(2, igc_utoa(UINT_MAX, b, (unsigned short)base) == b && ci_eq(b, ut(UINT_MAX, base)));
        chk(2, igc_ltoa((long)sv, b, (unsigned short)base) == b && ci_eq(b, rt(sv, base)));
        chk(2, igc_ultoa(uv, b, (unsigned short)base) == b && ci_eq(b, ut(uv, base)));
        sh.current = 3;
        g_capn = 0, debug_printdec_signed_long_long(sv), g_cap[g_capn] = 0, chk(3, ci_eq(g_cap, rt(sv, 10)));
        g_capn = 0, debug_printhex_uint64(uv), g_cap[g_capn] = 0, chk(3, ci_eq(g_cap, ut(uv, 16)));
        g_capn = 0, debug_printbin_uint64(uv), g_cap[g_capn] = 0, chk(3, ci_eq(g_cap, ut(uv, 2)));
        sh.current = 4, chk(4, vt100_left(b, INT_MIN) == 14 && !strcmp(b, "\x1B[-2147483648D"));
        sh.current = 5, e = (char *)1, chk(5, igris_atoi64(s64.c_str(), (uint8_t)base, &e) == sv && e == s64.c_str() + s64.size() - 1);
        sh.current = 6, e = (char *)1, chk(6, igris_atou64(u64.c_str(), (uint8_t)base, &e) == uv && e == u64.c_str() + u64.size() - 1);
        sh.current = 7, e = (char *)1, chk(7, igris_atoi32(s32.c_str(), (uint8_t)base, &e) == INT_MIN && e == s32.c_str() + s32.size());
        sh.current = 8, e = (char *)1, chk(8, igris_atou32(u32.c_str(), (uint8_t)base, &e) == 4294967295u && e == u32.c_str() + u32.size() - 1);
        sh.current = 9, e = (char *)1, chk(9, igris_atoi16(s16.c_str(), (uint8_t)base, &e) == -32768 && e == s16.c_str() + s16.size());
        chk(9, igris_atoi8(("-" + zeros + ut(128, base)).c_str(), (uint8_t)base, nullptr) == -128);
        chk(9, igris_atou16((zeros + ut(65535, base)).c_str(), (uint8_t)base, nullptr) == 65535);
        e = (char *)1, chk(9, igris_atou8(u8.c_str(), (uint8_t)base, &e) == 255 && e == u8.c_str() + u8.size());
        sh.current = 10, chk(10, igc_atol(al.c_str()) == -9223372036854775807L);
        sh.current = 11, chk(11, igc_atoi(ai.c_str()) == 2147483647);
        sh.current = 12;
    });
    char key[120];
    if (o.crashed)
    {
        const char *rn = o.current >= 0 && o.current < 12 ? RNAME[o.current] : "harness";
        snprintf(key, sizeof key, "small-stack:%s:%s", rn, o.hung ? "hang" : "crash");
        vf::fail(key, "base %u, %zu leading zeros / blanks on a %zu KiB thread stack: child ended with signal %d while in %s", base, pad, stack >> 10, o.sig, rn);
    }
    for (int i = 0; i < 12; i++)
        if (o.bad & (1ul << i))
        {
            snprintf(key, sizeof key, "small-stack:%s:!=reference", RNAME[i]);
            vf::fail(key, "base %u, %zu leading zeros / blanks on a %zu KiB thread stack: result differs from the reference", base, pad, stack >> 10);
        }
    VF_OK("renderers, and parsers on 64 KiB / 1.5 MiB texts, from a thread with a 64 / 128 KiB stack == reference");
    vf::count_bulk(12, 12);
    if (c == 1)
        vf::sample("small-stack: base %u, %zu leading zeros, %zu KiB stack, all renderers and parsers", base, pad, stack >> 10);
}
VF_SUITE(small_stack, ss_count, ss_run)

extern "C" void vf_setup() { vf::require("renderers, and parsers on 64 KiB / 1.5 MiB texts, from a thread with a 64 / 128 KiB stack == reference"); }
