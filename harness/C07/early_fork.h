// early_fork.h — run a set of calls DURING STATIC INITIALISATION of a harness TU (harness objects are linked in front
// of the /repo objects, so nothing inside the igris TUs has been dynamically initialised yet), in a forked child that
// stores its results in a shared POD; a crash there is attributed by the case instead of killing the harness.
#pragma once
#include <cstring>
#include <signal.h>
#include <sys/mman.h>
#include <sys/resource.h>
#include <sys/wait.h>
#include <unistd.h>

template <class D> struct EarlyRun
{
    D *data;
    bool died = false, hung = false;
    template <class F> explicit EarlyRun(F fn)
    {
        data = (D *)mmap(nullptr, sizeof(D), PROT_READ | PROT_WRITE, MAP_SHARED | MAP_ANONYMOUS, -1, 0);
        memset((void *)data, 0, sizeof(D));
        pid_t pid = fork();
        if (pid == 0)
        {
            struct rlimit rl = {5, 6}; // a call that spins is ended by SIGXCPU instead of blocking the harness start
            setrlimit(RLIMIT_CPU, &rl);
            fn(*data);
            _exit(0);
        }
        int st = 0;
        waitpid(pid, &st, 0);
        died = !(WIFEXITED(st) && WEXITSTATUS(st) == 0);
        hung = WIFSIGNALED(st) && (WTERMSIG(st) == SIGXCPU || WTERMSIG(st) == SIGKILL);
    }
};
struct EarlyText
{
    unsigned len;
    char d[60];
    void set(const char *p, size_t n)
    {
        len = (unsigned)n;
        memcpy(d, p, n < sizeof d ? n : sizeof d);
    }
};
