// C07 — integer <-> text: igris_*toa / igris_ato*, compat itoa/utoa/ltoa/ultoa + atol/atoi, debug-print
// decimal/hex/binary renderers, vt100_left.  Oracles: repeated-division renderer and an odometer (digit-string
// increment) renderer, both written from the definition of positional notation; exact heap blocks under ASan.
#define VF_MAIN
#include "vf.h"
#include "guard.h"
#include <igris/defs/vt100.h>
#include <igris/dprint/dprint.h>
#include <igris/util/ctype.h>
#include <igris/util/hexascii.h>
#include <igris/util/numconvert.h>
#include <climits>
#include <string>

extern "C"
{
    // compat/libc shims, renamed by the build (compat_libc source spec)
    char *igc_itoa(int num, char *buf, unsigned short base);
    char *igc_utoa(unsigned num, char *buf, unsigned short base);
    char *igc_ltoa(long num, char *buf, unsigned short base);
    char *igc_ultoa(unsigned long num, char *buf, unsigned short base);
    long igc_atol(const char *);
    int igc_atoi(const char *);
    // defined in dprint_func_impl.c, not declared in dprint.h
    void debug_printdec_uint64(uint64_t);
    void debug_printdec_uint32(uint32_t);
    void debug_printdec_uint16(uint16_t);
    void debug_printdec_uint8(uint8_t);
}

// ---------------------------------------------------------------- debug output capture
static char g_cap[512];
static size_t g_capn = 0;
static bool g_cap_overflow = false;
extern "C" void debug_putchar(char c)
{
    if (g_capn < sizeof g_cap)
        g_cap[g_capn++] = c;
    else
        g_cap_overflow = true;
}
extern "C" void debug_write(const char *c, int n)
{
    for (int i = 0; i < n; i++)
        debug_putchar(c[i]);
}

#include "c07_refs.h"
#include "early_fork.h"
// REDUCED: second build with -funsigned-char runs a fraction of the workload
#ifdef C07_REDUCED
static const uint64_t REDUCE = 8;
#else
static const uint64_t REDUCE = 1;
#endif
// digit-string odometer: the text of k+1 from the text of k
struct Odo
{
    enum { END = 70 };
    unsigned base;
    int start; // digits occupy [start, END)
    uint8_t d[END];
    char lc[END + 1], uc[END + 1];
    void init(uint64_t mag, unsigned b)
    {
        base = b;
        char t[72];
        int n = ref_digits(mag, b, t);
        start = END - n;
        for (int i = 0; i < n; i++)
        {
            char c = t[i];
            unsigned v = c <= '9' ? c - '0' : c - 'a' + 10;
            set(start + i, v);
        }
        lc[END] = uc[END] = 0;
    }
    void set(int i, unsigned v)
    {
        d[i] = (uint8_t)v;
        lc[i] = digit_lc(v);
        uc[i] = digit_uc(v);
    }
    void inc()
    {
        int i = END - 1;
        while (i >= start && d[i] == base - 1)
            set(i--, 0);
        if (i < start)
            set(--start, 1);
        else
            set(i, d[i] + 1u);
    }
    int len() const { return END - start; }
    const char *lower() const { return lc + start; }
    const char *upper() const { return uc + start; }
};

// ---------------------------------------------------------------- exact blocks without a malloc per call
// malloc(L) under ASan has a red zone directly in front of byte 0 and directly behind byte L-1.
static char *block(size_t L, int which = 0)
{
    static char *pool[3][160];
    if (L >= 160 || L == 0)
        abort();
    char *&b = pool[which][L];
    if (!b)
        b = (char *)malloc(L);
    memset(b, 0x5A, L);
    return b;
}

// ---------------------------------------------------------------- render clauses
static const char *width_class(uint64_t mag, bool neg, int bits)
{
    if (neg && mag == (1ull << (bits - 1)))
        return "min";
    return neg ? "neg" : "nonneg";
}
// got/ret produced by the routine in a block of exactly reflen+1 bytes
static void judge_render(const char *routine, const char *cls, const char *got, const char *ret, bool ret_is_end, const char *ref,
                         int reflen, long long sval, unsigned long long uval, unsigned base)
{
    char key[120];
    // text, case-insensitively; the block is exactly reflen+1 bytes so a longer text already tripped ASan
    bool same = true, has_lc = false, has_uc = false;
    for (int i = 0; i < reflen; i++)
    {
        char g = got[i];
        if (g >= 'a' && g <= 'z')
            has_lc = true;
        if (g >= 'A' && g <= 'Z')
        {
            has_uc = true;
            g = (char)(g - 'A' + 'a');
        }
        if (g != ref[i])
            same = false;
    }
    if (!same || got[reflen] != 0)
    {
        snprintf(key, sizeof key, "render:%s:text:%s", routine, cls);
        vf::fail(key, "value=%lld/%llu base=%u got=\"%s\" ref=\"%s\"", sval, uval, base, vf::esc(got, reflen + 1).c_str(), ref);
    }
    if (has_lc && has_uc)
    {
        snprintf(key, sizeof key, "render:%s:mixed-case", routine);
        vf::fail(key, "value=%lld/%llu base=%u got=\"%s\"", sval, uval, base, vf::esc(got, reflen).c_str());
    }
    if (ret != (ret_is_end ? got + reflen : got))
    {
        snprintf(key, sizeof key, "render:%s:returned-pointer", routine);
        vf::fail(key, "value=%lld/%llu base=%u text=\"%s\" returned buf%+ld, expected buf%+d", sval, uval, base, ref, (long)(ret - got),
                 ret_is_end ? reflen : 0);
    }
}

#define RENDER_IGRIS(fn, T, v, base, ref, reflen, kcls)                                                            \
    do                                                                                                            \
    {                                                                                                             \
        vf::cls(#fn);                                                                                             \
        char *b_ = block((reflen) + 1);                                                                           \
        char *r_ = fn((T)(v), b_, (uint8_t)(base));                                                               \
        judge_render(#fn, kcls, b_, r_, true, ref, reflen, (long long)(v), (unsigned long long)(v), base);         \
    } while (0)
#define RENDER_SHIM(fn, T, v, base, ref, reflen, kcls)                                                            \
    do                                                                                                            \
    {                                                                                                             \
        vf::cls(#fn);                                                                                             \
        char *b_ = block((reflen) + 1);                                                                           \
        char *r_ = igc_##fn((T)(v), b_, (unsigned short)(base));                                                  \
        judge_render(#fn, kcls, b_, r_, false, ref, reflen, (long long)(v), (unsigned long long)(v), base);        \
    } while (0)

// ---------------------------------------------------------------- parse clauses
// Every end variable handed to a parser is poisoned first: a small invalid address or a pointer into an unrelated
// buffer (what a caller's variable holds after an earlier call); a parser that does not write it is caught.
static char g_elsewhere[16];
#define POISON(k) (((k) & 1) ? (char *)1 : g_elsewhere + 5)
#define IS_POISON(p) ((p) == (char *)1 || (p) == g_elsewhere + 5)
struct Term
{
    char c;          // 0 = end of string
    const char *cls; // key class
};
// terminators that cannot continue a number in `base`; k selects one
static Term pick_term(unsigned base, unsigned k)
{
    static const char NONALNUM[] = " {:@[`/-+._,\t\n\x7f";
    switch (k % 6)
    {
    case 0: return Term{0, "nul"};
    case 1: return Term{NONALNUM[(k / 6) % (sizeof NONALNUM - 1)], "non-alnum"};
    case 2: // the smallest digit that is not a digit of this base
        if (base < 10) return Term{(char)('0' + base), "digit>=base"};
        if (base < 36) return Term{(k / 6) % 2 ? digit_uc(base) : digit_lc(base), "digit>=base"};
        return Term{'{', "non-alnum"};
    case 3: // the largest alphanumeric
        if (base < 36) return Term{(k / 6) % 2 ? 'Z' : 'z', "digit>=base"};
        return Term{'@', "non-alnum"};
    case 4:
        if (base < 10) return Term{'9', "digit>=base"};
        if (base <= 16) return Term{(k / 6) % 2 ? 'G' : 'g', "digit>=base"};
        return Term{'`', "non-alnum"};
    default: return Term{(char)(0x80 | ((k / 6) * 37 % 128)), "high-bit"};
    }
}
enum Spell { LOWER, UPPER };
// s = text ++ t [++ "1"] ++ NUL in an exact block; returns the block and the expected end
static char *make_input(const char *text, int len, Spell sp, Term t, bool tail)
{
    size_t L = (size_t)len + 1 + (t.c ? 1 + (tail ? 1 : 0) : 0);
    char *b = block(L, 2);
    for (int i = 0; i < len; i++)
        b[i] = (sp == UPPER && text[i] >= 'a' && text[i] <= 'z') ? (char)(text[i] - 'a' + 'A') : text[i];
    int n = len;
    if (t.c)
    {
        b[n++] = t.c;
        if (tail)
            b[n++] = '1';
    }
    b[n] = 0;
    return b;
}
static bool has_letters(const char *t, int len)
{
    for (int i = 0; i < len; i++)
        if (t[i] >= 'a')
            return true;
    return false;
}
template <class T, class FN>
static void judge_parse(const char *routine, FN fn, T want, const char *text, int len, unsigned base, Spell sp, Term t, bool tail)
{
    char key[120];
    vf::cls(routine);
    char *s = make_input(text, len, sp, t, tail);
    if (vf::verbose())
        printf("  %s(\"%s\", %u)\n", routine, vf::esc(s, strlen(s)).c_str(), base);
    char *end = POISON(len + t.c);
    T got = fn(s, (uint8_t)base, &end);
    const char *digits = !has_letters(text, len) ? (base <= 10 ? "digits" : "digits-only-base>10") : sp == UPPER ? "upper-case" : "lower-case";
    if (got != want)
    {
        snprintf(key, sizeof key, "parse:%s:value:%s", routine, digits);
        vf::fail(key, "text=\"%s\" base=%u got=%lld/%llu want=%lld/%llu", vf::esc(s, strlen(s)).c_str(), base, (long long)got,
                 (unsigned long long)got, (long long)want, (unsigned long long)want);
    }
    if (end != s + len)
    {
        snprintf(key, sizeof key, "parse:%s:end:%s", routine, t.cls);
        vf::fail(key, "text=\"%s\" base=%u number is %d chars, *end = text%+ld", vf::esc(s, strlen(s)).c_str(), base, len,
                 IS_POISON(end) ? -999999L : (long)(end - s));
    }
    // the end pointer is optional
    T got2 = fn(s, (uint8_t)base, nullptr);
    if (got2 != want)
    {
        snprintf(key, sizeof key, "parse:%s:value:end==NULL", routine);
        vf::fail(key, "text=\"%s\" base=%u got=%lld want=%lld", vf::esc(s, strlen(s)).c_str(), base, (long long)got2, (long long)want);
    }
}
static void count_term(const Term &t)
{
    switch (t.cls[0])
    {
    case 'n': if (t.cls[1] == 'u') VF_OK("parse stops at NUL and reports it"); else VF_OK("parse stops at a non-alphanumeric and reports it"); break;
    case 'd': VF_OK("parse stops at a digit >= base and reports it"); break;
    default: VF_OK("parse stops at a byte >= 0x80 and reports it"); break;
    }
}

// ---------------------------------------------------------------- one (value, base) through the routines of one width
// k: running number, selects terminator / spelling variety
template <int BITS> struct W;
template <> struct W<8>  { typedef int8_t S;  typedef uint8_t U; };
template <> struct W<16> { typedef int16_t S; typedef uint16_t U; };
template <> struct W<32> { typedef int32_t S; typedef uint32_t U; };
template <> struct W<64> { typedef int64_t S; typedef uint64_t U; };

template <int BITS> static void render_s(typename W<BITS>::S v, unsigned base, const char *ref, int n, const char *cls);
template <> void render_s<8>(int8_t v, unsigned base, const char *ref, int n, const char *cls) { RENDER_IGRIS(igris_i8toa, int8_t, v, base, ref, n, cls); }
template <> void render_s<16>(int16_t v, unsigned base, const char *ref, int n, const char *cls) { RENDER_IGRIS(igris_i16toa, int16_t, v, base, ref, n, cls); }
template <> void render_s<32>(int32_t v, unsigned base, const char *ref, int n, const char *cls) { RENDER_IGRIS(igris_i32toa, int32_t, v, base, ref, n, cls); }
template <> void render_s<64>(int64_t v, unsigned base, const char *ref, int n, const char *cls) { RENDER_IGRIS(igris_i64toa, int64_t, v, base, ref, n, cls); }
template <int BITS> static void render_u(typename W<BITS>::U v, unsigned base, const char *ref, int n);
template <> void render_u<8>(uint8_t v, unsigned base, const char *ref, int n) { RENDER_IGRIS(igris_u8toa, uint8_t, v, base, ref, n, "nonneg"); }
template <> void render_u<16>(uint16_t v, unsigned base, const char *ref, int n) { RENDER_IGRIS(igris_u16toa, uint16_t, v, base, ref, n, "nonneg"); }
template <> void render_u<32>(uint32_t v, unsigned base, const char *ref, int n) { RENDER_IGRIS(igris_u32toa, uint32_t, v, base, ref, n, "nonneg"); }
template <> void render_u<64>(uint64_t v, unsigned base, const char *ref, int n) { RENDER_IGRIS(igris_u64toa, uint64_t, v, base, ref, n, "nonneg"); }

template <int BITS> static void parse_s(typename W<BITS>::S v, const char *t, int n, unsigned base, Spell sp, Term tm, bool tail);
template <> void parse_s<8>(int8_t v, const char *t, int n, unsigned base, Spell sp, Term tm, bool tail) { judge_parse<int8_t>("igris_atoi8", igris_atoi8, v, t, n, base, sp, tm, tail); }
template <> void parse_s<16>(int16_t v, const char *t, int n, unsigned base, Spell sp, Term tm, bool tail) { judge_parse<int16_t>("igris_atoi16", igris_atoi16, v, t, n, base, sp, tm, tail); }
template <> void parse_s<32>(int32_t v, const char *t, int n, unsigned base, Spell sp, Term tm, bool tail) { judge_parse<int32_t>("igris_atoi32", igris_atoi32, v, t, n, base, sp, tm, tail); }
template <> void parse_s<64>(int64_t v, const char *t, int n, unsigned base, Spell sp, Term tm, bool tail) { judge_parse<int64_t>("igris_atoi64", igris_atoi64, v, t, n, base, sp, tm, tail); }
template <int BITS> static void parse_u(typename W<BITS>::U v, const char *t, int n, unsigned base, Spell sp, Term tm, bool tail);
template <> void parse_u<8>(uint8_t v, const char *t, int n, unsigned base, Spell sp, Term tm, bool tail) { judge_parse<uint8_t>("igris_atou8", igris_atou8, v, t, n, base, sp, tm, tail); }
template <> void parse_u<16>(uint16_t v, const char *t, int n, unsigned base, Spell sp, Term tm, bool tail) { judge_parse<uint16_t>("igris_atou16", igris_atou16, v, t, n, base, sp, tm, tail); }
template <> void parse_u<32>(uint32_t v, const char *t, int n, unsigned base, Spell sp, Term tm, bool tail) { judge_parse<uint32_t>("igris_atou32", igris_atou32, v, t, n, base, sp, tm, tail); }
template <> void parse_u<64>(uint64_t v, const char *t, int n, unsigned base, Spell sp, Term tm, bool tail) { judge_parse<uint64_t>("igris_atou64", igris_atou64, v, t, n, base, sp, tm, tail); }

// full treatment of one bit pattern at one width: signed and unsigned view, render + parse
template <int BITS> static void width_case(uint64_t pattern, unsigned base, uint64_t k, int nterms)
{
    typedef typename W<BITS>::S S;
    typedef typename W<BITS>::U U;
    U u = (U)pattern;
    S s = (S)u;
    char ts[72], tu[72];
    bool neg = s < 0;
    int ns = ref_text(mag_of((int64_t)s), neg, base, ts);
    int nu = ref_text((uint64_t)u, false, base, tu);
    if (vf::verbose())
        printf("  width=%d base=%u signed=%lld (\"%s\") unsigned=%llu (\"%s\")\n", BITS, base, (long long)s, ts, (unsigned long long)u, tu);
    render_s<BITS>(s, base, ts, ns, width_class(mag_of((int64_t)s), neg, BITS));
    VF_OK("igris_i*toa text == reference (case-insensitive, uniform case, NUL and returned pointer at the end)");
    render_u<BITS>(u, base, tu, nu);
    VF_OK("igris_u*toa text == reference (case-insensitive, uniform case, NUL and returned pointer at the end)");
    for (int j = 0; j < nterms; j++)
    {
        Term tm = pick_term(base, (unsigned)(k * 5 + j * 7 + (k >> 8)));
        bool tail = ((k + j) & 1) != 0;
        Spell sp = ((k >> 1) + j) & 1 ? UPPER : LOWER;
        parse_s<BITS>(s, ts, ns, base, sp, tm, tail);
        parse_u<BITS>(u, tu, nu, base, sp, tm, tail);
        count_term(tm);
        if (has_letters(tu, nu) || has_letters(ts, ns))
        {
            if (sp == UPPER)
                VF_OK("parse accepts upper-case letters");
            else
                VF_OK("parse accepts lower-case letters");
        }
        VF_OK("igris_ato*(text ++ t) == value");
    }
}

// compat shims for an int / long value
static void shim_int(int v, unsigned base)
{
    char t[72];
    int n = ref_text(mag_of(v), v < 0, base, t);
    RENDER_SHIM(itoa, int, v, base, t, n, width_class(mag_of(v), v < 0, 32));
    unsigned u = (unsigned)v;
    n = ref_text(u, false, base, t);
    RENDER_SHIM(utoa, unsigned, u, base, t, n, "nonneg");
    VF_OK("itoa/utoa text == reference, returns buf");
}
static void shim_long(long v, unsigned base)
{
    char t[72];
    int n = ref_text(mag_of(v), v < 0, base, t);
    RENDER_SHIM(ltoa, long, v, base, t, n, width_class(mag_of(v), v < 0, 64));
    unsigned long u = (unsigned long)v;
    n = ref_text(u, false, base, t);
    RENDER_SHIM(ultoa, unsigned long, u, base, t, n, "nonneg");
    VF_OK("ltoa/ultoa text == reference, returns buf");
}
// atol/atoi read back the decimal text of the shims (value fits the return type)
static void shim_atol(long v, uint64_t k)
{
    char t[72], key[96];
    int n = ref_text(mag_of(v), v < 0, 10, t);
    Term tm = pick_term(10, (unsigned)k);
    char *s = make_input(t, n, LOWER, tm, (k & 1) != 0);
    vf::cls("atol");
    long g = igc_atol(s);
    if (g != v)
    {
        snprintf(key, sizeof key, "parse:atol:value:%s", width_class(mag_of(v), v < 0, 64));
        vf::fail(key, "text=\"%s\" got=%ld want=%ld", vf::esc(s, strlen(s)).c_str(), g, v);
    }
    VF_OK("atol(decimal text ++ t) == value");
    if (v >= INT_MIN && v <= INT_MAX)
    {
        vf::cls("atoi");
        int gi = igc_atoi(s);
        if (gi != (int)v)
        {
            snprintf(key, sizeof key, "parse:atoi:value:%s", width_class(mag_of(v), v < 0, 32));
            vf::fail(key, "text=\"%s\" got=%d want=%ld", vf::esc(s, strlen(s)).c_str(), gi, v);
        }
        VF_OK("atoi(decimal text ++ t) == value");
    }
}

// ---------------------------------------------------------------- debug-print renderers
static void cap_begin() { g_capn = 0; g_cap_overflow = false; }
static void cap_judge(const char *routine, const std::string &ref, unsigned long long uval)
{
    char key[120];
    bool same = g_capn == ref.size() && !g_cap_overflow, lc = false, uc = false;
    for (size_t i = 0; same && i < g_capn; i++)
    {
        char g = g_cap[i];
        if (g >= 'a' && g <= 'z')
            lc = true;
        if (g >= 'A' && g <= 'Z')
        {
            uc = true;
            g = (char)(g - 'A' + 'a');
        }
        if (g != ref[i])
            same = false;
    }
    if (!same)
    {
        snprintf(key, sizeof key, "dprint:%s:text", routine);
        vf::fail(key, "value=%lld/%llu/0x%llx emitted=\"%s\" ref=\"%s\"", (long long)uval, uval, uval, vf::esc(g_cap, g_capn).c_str(), ref.c_str());
    }
    if (lc && uc)
    {
        snprintf(key, sizeof key, "dprint:%s:mixed-case", routine);
        vf::fail(key, "value=0x%llx emitted=\"%s\"", uval, vf::esc(g_cap, g_capn).c_str());
    }
}
static std::string dec_s(int64_t v)
{
    char t[72];
    ref_text(mag_of(v), v < 0, 10, t);
    return t;
}
static std::string dec_u(uint64_t v)
{
    char t[72];
    ref_text(v, false, 10, t);
    return t;
}
// fixed width, most significant digit first, zero padded
static std::string fixed(uint64_t v, unsigned base, int digits)
{
    char t[72];
    int n = ref_digits(v, base, t);
    std::string s(digits > n ? digits - n : 0, '0');
    return s + t;
}
#define DPR(fn, arg, ref)                          \
    do                                             \
    {                                              \
        vf::cls(#fn);                              \
        cap_begin();                               \
        fn(arg);                                   \
        cap_judge(#fn, ref, (unsigned long long)(arg)); \
    } while (0)

static void dprint_pattern(uint64_t p)
{
    if (vf::verbose())
        printf("  dprint pattern=0x%llx\n", (unsigned long long)p);
    // decimal
    DPR(debug_printdec_signed_char, (signed char)p, dec_s((signed char)p));
    DPR(debug_printdec_signed_short, (short)p, dec_s((short)p));
    DPR(debug_printdec_signed_int, (int)p, dec_s((int)p));
    DPR(debug_printdec_signed_long, (long)p, dec_s((long)p));
    DPR(debug_printdec_signed_long_long, (long long)p, dec_s((long long)p));
    VF_OK("debug_printdec_signed_* == canonical decimal");
    DPR(debug_printdec_unsigned_char, (unsigned char)p, dec_u((unsigned char)p));
    DPR(debug_printdec_unsigned_short, (unsigned short)p, dec_u((unsigned short)p));
    DPR(debug_printdec_unsigned_int, (unsigned)p, dec_u((unsigned)p));
    DPR(debug_printdec_unsigned_long, (unsigned long)p, dec_u((unsigned long)p));
    DPR(debug_printdec_unsigned_long_long, (unsigned long long)p, dec_u(p));
    DPR(debug_printdec_uint8, (uint8_t)p, dec_u((uint8_t)p));
    DPR(debug_printdec_uint16, (uint16_t)p, dec_u((uint16_t)p));
    DPR(debug_printdec_uint32, (uint32_t)p, dec_u((uint32_t)p));
    DPR(debug_printdec_uint64, (uint64_t)p, dec_u(p));
    VF_OK("debug_printdec_unsigned_* / uintN == canonical decimal");
    // hexadecimal, fixed width 2*sizeof
    DPR(debug_printhex_uint4, (uint8_t)(p & 15), fixed(p & 15, 16, 1));
    DPR(debug_printhex_uint8, (uint8_t)p, fixed((uint8_t)p, 16, 2));
    DPR(debug_printhex_uint16, (uint16_t)p, fixed((uint16_t)p, 16, 4));
    DPR(debug_printhex_uint32, (uint32_t)p, fixed((uint32_t)p, 16, 8));
    DPR(debug_printhex_uint64, (uint64_t)p, fixed(p, 16, 16));
    DPR(debug_printhex_int8, (int8_t)p, fixed((uint8_t)p, 16, 2));
    DPR(debug_printhex_int16, (int16_t)p, fixed((uint16_t)p, 16, 4));
    DPR(debug_printhex_int32, (int32_t)p, fixed((uint32_t)p, 16, 8));
    DPR(debug_printhex_int64, (int64_t)p, fixed(p, 16, 16));
    DPR(debug_printhex_char, (char)p, fixed((uint8_t)p, 16, 2));
    DPR(debug_printhex_signed_char, (signed char)p, fixed((uint8_t)p, 16, 2));
    DPR(debug_printhex_unsigned_char, (unsigned char)p, fixed((uint8_t)p, 16, 2));
    DPR(debug_printhex_signed_short, (short)p, fixed((uint16_t)p, 16, 4));
    DPR(debug_printhex_unsigned_short, (unsigned short)p, fixed((uint16_t)p, 16, 4));
    DPR(debug_printhex_signed_int, (int)p, fixed((uint32_t)p, 16, 8));
    DPR(debug_printhex_unsigned_int, (unsigned)p, fixed((uint32_t)p, 16, 8));
    DPR(debug_printhex_signed_long, (long)p, fixed(p, 16, 16));
    DPR(debug_printhex_unsigned_long, (unsigned long)p, fixed(p, 16, 16));
    DPR(debug_printhex_signed_long_long, (long long)p, fixed(p, 16, 16));
    DPR(debug_printhex_unsigned_long_long, (unsigned long long)p, fixed(p, 16, 16));
    VF_OK("debug_printhex_* == fixed-width hexadecimal of the value");
    // binary, fixed width 8*sizeof
    DPR(debug_printbin_uint4, (uint8_t)(p & 15), fixed(p & 15, 2, 4));
    DPR(debug_printbin_uint8, (uint8_t)p, fixed((uint8_t)p, 2, 8));
    DPR(debug_printbin_uint16, (uint16_t)p, fixed((uint16_t)p, 2, 16));
    DPR(debug_printbin_uint32, (uint32_t)p, fixed((uint32_t)p, 2, 32));
    DPR(debug_printbin_uint64, (uint64_t)p, fixed(p, 2, 64));
    VF_OK("debug_printbin_* == fixed-width binary of the value");
}

static void vt100_case(int arg)
{
    vf::cls("vt100_left");
    char t[72];
    int n = ref_text(mag_of(arg), arg < 0, 10, t);
    std::string ref = std::string("\x1B[") + t + "D";
    char *b = block(ref.size() + 1);
    int r = vt100_left(b, arg);
    if (memcmp(b, ref.c_str(), ref.size() + 1) != 0)
        vf::fail("vt100_left:text", "arg=%d got=\"%s\" ref=\"%s\"", arg, vf::esc(b, ref.size() + 1).c_str(), vf::esc(ref.data(), ref.size()).c_str());
    if (r != (int)ref.size())
        vf::fail("vt100_left:length", "arg=%d returned %d, text has %zu characters", arg, r, ref.size());
    (void)n;
    VF_OK("vt100_left == ESC [ decimal D, returns its length");
}

// ---------------------------------------------------------------- boundary-biased values
static uint64_t biased(vf::Rng &r, int bits, unsigned base)
{
    uint64_t mask = bits == 64 ? ~0ull : ((1ull << bits) - 1), v;
    switch (r.below(8))
    {
    case 0: v = r.next(); break;
    case 1: v = (1ull << r.below(bits)) + (uint64_t)(int64_t)r.range(-3, 3); break;
    case 2: v = 0 - ((1ull << r.below(bits)) + (uint64_t)(int64_t)r.range(-3, 3)); break;
    case 3: { // around a power of the base (digit-count boundaries), positive and negative
        uint64_t p = 1;
        int e = (int)r.below(64);
        for (int i = 0; i < e && p <= mask / base; i++)
            p *= base;
        v = p + (uint64_t)(int64_t)r.range(-2, 2);
        if (r.chance(1, 2))
            v = 0 - v;
        break;
    }
    case 4: v = r.next() >> r.below(bits); break; // every magnitude class
    case 5: v = 0 - (r.next() >> r.below(bits)); break;
    case 6: { static const uint64_t S[] = {0, 1, ~0ull, 0x7fffffffffffffffull, 0x8000000000000000ull, 0x7fffffffull, 0x80000000ull, 0xffffffffull, 0x7fff, 0x8000, 0xffff, 0x7f, 0x80, 0xff, 9, 10, 35, 36};
              v = r.pick(S) + (uint64_t)(int64_t)r.range(-1, 1); break; }
    default: { // digits drawn from {0, 9, a, base-1}: exercises the digit/letter seam
        v = 0;
        int nd = 1 + (int)r.below(64);
        for (int i = 0; i < nd && v <= mask / base; i++)
        {
            unsigned ds[4] = {0, base > 9 ? 9u : base - 1, base > 10 ? 10u : 1u, base - 1};
            v = v * base + ds[r.below(4)];
        }
        if (r.chance(1, 3))
            v = 0 - v;
        break;
    }
    }
    return v & mask;
}

// ---------------------------------------------------------------- suites
static const unsigned FAV_BASES[7] = {2, 8, 10, 16, 36, 11, 35};
// (a) all 8-bit values x all bases, all wrappers
static uint64_t w8_count() { return 35; }
static void w8_run(uint64_t c)
{
    unsigned base = 2 + (unsigned)c;
    for (unsigned p = 0; p < 256; p++)
        width_case<8>(p, base, p + c * 256, 6);
    vf::count_bulk(256, 255);
    if (base == 16)
        vf::sample("w8: all 256 patterns, base 16: i8toa/u8toa, atoi8/atou8 with 6 terminators each");
}
VF_SUITE(w8, w8_count, w8_run)

// (b) all 16-bit values x all bases; shims and debug renderers ride along
static uint64_t w16_count() { return 35 * 16; }
static void w16_run(uint64_t c)
{
    if (REDUCE > 1 && c % 4 != vf::seed() % 4)
        return; // reduced build: every 4th block
    unsigned base = 2 + (unsigned)(c / 16);
    uint64_t lo = (c % 16) * 4096;
    for (uint64_t p = lo; p < lo + 4096; p++)
    {
        width_case<16>(p, base, p + c, 2);
        shim_int((int)(int16_t)p, base);
        shim_long((long)(int16_t)p, base);
        if (base == 10)
        {
            shim_atol((long)(int16_t)p, p);
            vt100_case((int)(int16_t)p);
        }
        if (base == 16)
            dprint_pattern((p & 1) ? vf::mix(p, 7) >> (p % 61) : (uint64_t)(int64_t)(int16_t)p);
    }
    vf::count_bulk(4096, 4096 - (lo == 0));
    if (c == 0)
        vf::sample("w16: patterns 0x0000..0x0fff base 2: i16toa/u16toa, atoi16/atou16, itoa/utoa/ltoa/ultoa");
}
VF_SUITE(w16, w16_count, w16_run)

// (c) boundary-biased 32-bit and 64-bit (value, base) pairs
static const uint64_t RB = 1000;
static uint64_t w32_count() { return (vf::thorough() ? 8000000ull : 2000000ull) / RB / REDUCE; }
static void w32_run(uint64_t c)
{
    vf::Rng r(vf::seed(), 0xC0732, c);
    for (uint64_t k = 0; k < RB; k++)
    {
        unsigned base = r.chance(1, 2) ? 2 + (unsigned)r.below(35) : r.pick(FAV_BASES);
        uint64_t p = biased(r, 32, base);
        width_case<32>(p, base, c * RB + k, 1);
        shim_int((int)(uint32_t)p, base);
        if (k % 4 == 0)
        {
            shim_atol((long)(int32_t)(uint32_t)p, k);
            vt100_case((int)(uint32_t)p);
        }
        vf::count_case(vf::mix(p, base), p != 0);
        if (k == 0 && vf::want_sample())
            vf::sample("w32: pattern=0x%08llx base=%u", (unsigned long long)p, base);
    }
}
VF_SUITE(w32, w32_count, w32_run)

static uint64_t w64_count() { return (vf::thorough() ? 24000000ull : 1000000ull) / RB / REDUCE; }
static void w64_run(uint64_t c)
{
    vf::Rng r(vf::seed(), 0xC0764, c);
    for (uint64_t k = 0; k < RB; k++)
    {
        unsigned base = r.chance(1, 2) ? 2 + (unsigned)r.below(35) : r.pick(FAV_BASES);
        uint64_t p = biased(r, 64, base);
        width_case<64>(p, base, c * RB + k, 1);
        shim_long((long)p, base);
        if (k % 4 == 0)
            shim_atol((long)p, k);
        if (k % 8 == 0)
            dprint_pattern(p);
        vf::count_case(vf::mix(p, base + 64), p != 0);
        if (k == 0 && vf::want_sample())
            vf::sample("w64: pattern=0x%016llx base=%u", (unsigned long long)p, base);
    }
}
VF_SUITE(w64, w64_count, w64_run)

// (d) blocks of 2^16 consecutive 32-bit patterns, signed and unsigned view, render + parse, against the odometer reference.
//     thorough: every 32-bit pattern for bases 10 and 16, every 8th block for bases 2, 8, 36;
//     the other 30 bases on a stride-coprime subsequence of 2^22 patterns each
static const unsigned SWEEP_BASES[5] = {2, 8, 10, 16, 36};
// thorough: bases 10 and 16 complete (2 x 65536 blocks), bases 2, 8, 36 every 8th block (3 x 8192 blocks, offset by the seed)
static uint64_t sweep_count() { return vf::thorough() && REDUCE == 1 ? 2ull * 65536 + 3ull * 8192 : 5ull * 8; }
static void sweep_chunk(unsigned base, uint32_t lo)
{
    // unsigned view: lo .. lo+65535 ascending; signed view: ascending magnitude
    Odo ou, os;
    ou.init(lo, base);
    bool negchunk = (int32_t)lo < 0;
    int32_t s0 = negchunk ? (int32_t)(lo + 65535u) : (int32_t)lo; // smallest magnitude in the chunk
    os.init(mag_of(s0), base);
    char key[96], rs[80];
    for (uint32_t k = 0; k < 65536; k++)
    {
        uint32_t u = lo + k;
        int32_t s = negchunk ? (int32_t)(s0 - (int32_t)k) : (int32_t)(s0 + (int32_t)k);
        // ---- render
        int nu = ou.len(), ns = os.len() + (negchunk ? 1 : 0);
        char *bu = block(nu + 1);
        vf::cls("igris_u32toa");
        char *ru = igris_u32toa(u, bu, (uint8_t)base);
        if (ru != bu + nu || (memcmp(bu, ou.upper(), nu + 1) != 0 && memcmp(bu, ou.lower(), nu + 1) != 0))
            judge_render("igris_u32toa", "nonneg", bu, ru, true, ou.lower(), nu, u, u, base), vf::fail("render:igris_u32toa:text:nonneg", "fast path and slow path disagree for %u base %u", u, base);
        rs[0] = '-';
        char *bs = block(ns + 1, 1);
        vf::cls("igris_i32toa");
        char *rsp = igris_i32toa(s, bs, (uint8_t)base);
        const char *cls = width_class(mag_of(s), negchunk, 32);
        int off = negchunk ? 1 : 0;
        if (rsp != bs + ns || (negchunk && bs[0] != '-') || (memcmp(bs + off, os.lower(), ns - off + 1) != 0 && memcmp(bs + off, os.upper(), ns - off + 1) != 0))
        {
            memcpy(rs + 1, os.lower(), os.len() + 1);
            judge_render("igris_i32toa", cls, bs, rsp, true, negchunk ? rs : rs + 1, ns, s, (uint32_t)s, base);
            vf::fail("render:igris_i32toa:text:nonneg", "fast path and slow path disagree for %d base %u", s, base);
        }
        // ---- parse back what was rendered (both spellings over the sweep), NUL mostly, other terminators every 16th
        vf::cls("igris_atou32");
        char *end = POISON(k);
        uint32_t gu = igris_atou32(bu, (uint8_t)base, &end);
        if (gu != u || end != bu + nu)
        {
            snprintf(key, sizeof key, gu != u ? "parse:igris_atou32:value:roundtrip" : "parse:igris_atou32:end:nul");
            vf::fail(key, "text=\"%s\" base=%u got=%u want=%u *end=text%+ld", bu, base, gu, u, (long)(end - bu));
        }
        vf::cls("igris_atoi32");
        end = POISON(k + 1);
        int32_t gs = igris_atoi32(bs, (uint8_t)base, &end);
        if (gs != s || end != bs + ns)
        {
            snprintf(key, sizeof key, gs != s ? "parse:igris_atoi32:value:roundtrip" : "parse:igris_atoi32:end:nul");
            vf::fail(key, "text=\"%s\" base=%u got=%d want=%d *end=text%+ld", bs, base, gs, s, (long)(end - bs));
        }
        if ((k & 15) == 0)
        {
            memcpy(rs + 1, os.lower(), os.len() + 1);
            Term tm = pick_term(base, u >> 4);
            Spell sp = (u >> 9) & 1 ? UPPER : LOWER;
            judge_parse<int32_t>("igris_atoi32", igris_atoi32, s, negchunk ? rs : rs + 1, ns, base, sp, tm, (u >> 8) & 1);
            judge_parse<uint32_t>("igris_atou32", igris_atou32, u, ou.lower(), nu, base, sp, tm, (u >> 8) & 1);
            count_term(tm);
        }
        if ((k & 63) == 0)
            shim_int(s, base);
        ou.inc();
        os.inc();
    }
    // the odometer must have arrived where the division reference says (harness self-check)
    char t[72];
    ref_digits((uint64_t)lo + 65536, base, t);
    if (strcmp(t, ou.lower()) != 0)
        vf::fail("harness:odometer", "base %u lo=%u odometer=%s division=%s", base, lo, ou.lower(), t);
    VF_OKN("sweep: i32toa/u32toa == odometer reference; atoi32/atou32 read the text back", 65536);
    vf::count_bulk(65536, 65536);
}
static void sweep_run(uint64_t c)
{
    if (vf::thorough() && REDUCE == 1)
    {
        if (c < 2 * 65536)
            sweep_chunk(c < 65536 ? 10 : 16, (uint32_t)(c % 65536) << 16);
        else
        {
            static const unsigned PART[3] = {2, 8, 36};
            uint64_t k = c - 2 * 65536;
            sweep_chunk(PART[k / 8192], (uint32_t)((k % 8192) * 8 + vf::seed() % 8) << 16);
        }
    }
    else
    {
        // quick: the 8 chunks around 0, 2^31 and 2^32 for each of the five bases
        static const uint32_t LO[8] = {0x00000000u, 0x00010000u, 0x7ffe0000u, 0x7fff0000u, 0x80000000u, 0x80010000u, 0xfffe0000u, 0xffff0000u};
        sweep_chunk(SWEEP_BASES[c / 8], LO[c % 8]);
    }
    if (c == 0)
        vf::sample("sweep: base 2, patterns 0x00000000..0x0000ffff as int32 and uint32, render + parse back");
}
VF_SUITE(sweep32, sweep_count, sweep_run)

// the remaining 30 bases: p = k * odd stride (a permutation of the 32-bit patterns), 2^22 (thorough) / 2^14 (quick) patterns each
static uint64_t stride_per_base() { return vf::thorough() ? (1ull << 22) / REDUCE : (1ull << 14); }
static const uint64_t STRIDE_BATCH = 4096;
static uint64_t stride_count() { return 30 * stride_per_base() / STRIDE_BATCH; }
static void stride_run(uint64_t c)
{
    uint64_t per = stride_per_base() / STRIDE_BATCH;
    unsigned bi = (unsigned)(c / per), base = 2;
    for (unsigned b = 2, i = 0; b <= 36; b++)
    {
        if (b == 2 || b == 8 || b == 10 || b == 16 || b == 36)
            continue;
        if (i++ == bi)
            base = b;
    }
    uint64_t k0 = (c % per) * STRIDE_BATCH;
    for (uint64_t k = k0; k < k0 + STRIDE_BATCH; k++)
    {
        uint32_t p = (uint32_t)(k * 0x9E3779B1ull + vf::seed() * 0x85EBCA6Bull);
        width_case<32>(p, base, k, 1);
    }
    vf::count_bulk(STRIDE_BATCH, STRIDE_BATCH);
}
VF_SUITE(stride32, stride_count, stride_run)


// (f) digit-less texts: nothing to convert. The value is the empty sum 0; *end must be WRITTEN and is the start of the
//     text (the first character already cannot continue the number). For the signed parsers a leading '-' may or may not
//     count as consumed (statement: "first character that cannot continue the number" vs. strtol's "no conversion"):
//     start and start+1 are both accepted.
struct AnyParser
{
    const char *name;
    bool is_signed;
    long long (*call)(const char *, uint8_t, char **);
};
#define ANYP(fn, sg) {#fn, sg, [](const char *b, uint8_t base, char **e) -> long long { return (long long)fn(b, base, e); }}
static const AnyParser PARSERS[8] = {ANYP(igris_atoi8, true),  ANYP(igris_atoi16, true),  ANYP(igris_atoi32, true),  ANYP(igris_atoi64, true),
                                     ANYP(igris_atou8, false), ANYP(igris_atou16, false), ANYP(igris_atou32, false), ANYP(igris_atou64, false)};
static void judge_digitless(const AnyParser &P, const std::string &text, unsigned base, const char *cls, unsigned k)
{
    char key[120];
    vf::cls(P.name);
    char *s = block(text.size() + 1, 2);
    memcpy(s, text.c_str(), text.size() + 1);
    if (vf::verbose())
        printf("  %s(\"%s\", %u) [digit-less: %s]\n", P.name, vf::esc(s, text.size()).c_str(), base, cls);
    char *end = POISON(k);
    long long got = P.call(s, (uint8_t)base, &end);
    if (IS_POISON(end))
    {
        snprintf(key, sizeof key, "parse:%s:end-not-written:%s", P.name, cls);
        vf::fail(key, "text=\"%s\" base=%u: *end still holds the caller's old value", vf::esc(s, text.size()).c_str(), base);
    }
    bool ok = end == s || (P.is_signed && s[0] == '-' && end == s + 1);
    if (!ok)
    {
        snprintf(key, sizeof key, "parse:%s:end:digit-less:%s", P.name, cls);
        vf::fail(key, "text=\"%s\" base=%u has no digit; *end = text%+ld", vf::esc(s, text.size()).c_str(), base, (long)(end - s));
    }
    if (got != 0)
    {
        snprintf(key, sizeof key, "parse:%s:value:digit-less", P.name);
        vf::fail(key, "text=\"%s\" base=%u has no digit; value %lld", vf::esc(s, text.size()).c_str(), base, got);
    }
    (void)P.call(s, (uint8_t)base, nullptr); // the end pointer stays optional
}
static uint64_t digitless_count() { return 35; }
static void digitless_run(uint64_t c)
{
    unsigned base = 2 + (unsigned)c, k = (unsigned)c;
    for (const AnyParser &P : PARSERS)
    {
        judge_digitless(P, "", base, "empty", k++);
        judge_digitless(P, "-", base, "lone-sign", k++);
        for (unsigned j = 0; j < 24; j++)
        {
            Term t = pick_term(base, j * 6 + 1 + (j % 5)); // cycles through all classes but NUL
            if (!t.c)
                continue;
            std::string tt(1, t.c);
            judge_digitless(P, tt, base, "terminator-only", k++);
            judge_digitless(P, tt + "1", base, t.cls[0] == 'd' ? "digit>=base-first" : "terminator-first", k++);
            judge_digitless(P, "-" + tt, base, "sign+terminator", k++);
            judge_digitless(P, "-" + tt + "1", base, "sign+terminator", k++);
        }
        for (const char *lead : {" 1", "\t1", "\n0", " -1", "+1", "+", ".1", "--1", "-+1", "- 1", "-\x80", "\xff"})
            judge_digitless(P, lead, base, lead[0] == '+' ? "plus-sign" : lead[0] == '-' ? "sign+terminator" : "leading-blank-or-other", k++);
        VF_OK("digit-less text: *end written, at the start (signed: or behind a lone '-'), value 0");
    }
    vf::count_bulk(8 * 110, 8 * 110);
    if (base == 10)
        vf::sample("digit-less: \"\", \"-\", \";\", \"-;\", \" 1\", \"+1\", \"a1\" ... base 10, all 8 parsers, poisoned end variable");
}
VF_SUITE(digitless, digitless_count, digitless_run)

// (g) field splitter: one line of separated fields (numbers, empty fields, lone signs), parsed field by field with ONE end
//     variable that is never reset by the caller; a parser that leaves *end alone reports the end of the previous field.
static const uint64_t SB = 100;
static uint64_t split_count() { return (vf::thorough() ? 400000ull : 30000ull) / SB / REDUCE; }
static void split_run(uint64_t c)
{
    vf::Rng r(vf::seed(), 0xC075, c);
    char key[120];
    for (uint64_t n = 0; n < SB; n++)
    {
        const AnyParser &P = PARSERS[r.below(8)];
        int bits = 8 << (&P - PARSERS) % 4;
        unsigned base = r.chance(1, 2) ? 10 : 2 + (unsigned)r.below(35);
        static const char SEPS[] = ",;:| /";
        int nf = 2 + (int)r.below(7);
        struct Field { size_t start, numlen; long long want; bool digitless, lone_sign; };
        Field F[8];
        std::string line;
        for (int i = 0; i < nf; i++)
        {
            Field f{line.size(), 0, 0, false, false};
            int kind = (int)r.below(8);
            if (kind == 0)
                f.digitless = true; // empty field
            else if (kind == 1)
            {
                f.digitless = f.lone_sign = true;
                line += '-';
            }
            else
            {
                uint64_t pat = biased(r, bits, base);
                char t[72];
                int len;
                if (P.is_signed)
                {
                    int64_t v = bits == 64 ? (int64_t)pat : (int64_t)(pat << (64 - bits)) >> (64 - bits);
                    len = ref_text(mag_of(v), v < 0, base, t);
                    f.want = v;
                }
                else
                {
                    len = ref_text(pat, false, base, t);
                    f.want = (long long)pat;
                }
                bool up = r.chance(1, 2);
                for (int j = 0; j < len; j++)
                    line += (up && t[j] >= 'a') ? (char)(t[j] - 32) : t[j];
                f.numlen = (size_t)len;
            }
            F[i] = f;
            if (i + 1 < nf)
                line += SEPS[r.below(sizeof SEPS - 1)];
        }
        vf::Exact in(line.c_str(), line.size() + 1);
        if (vf::verbose())
            printf("  %s splits \"%s\" base %u\n", P.name, line.c_str(), base);
        vf::cls(P.name);
        char *end = POISON(n); // set once, then reused like a caller's loop variable
        for (int i = 0; i < nf; i++)
        {
            char *p = in.c() + F[i].start, *before = end;
            long long got = P.call(p, (uint8_t)base, &end);
            bool ok = F[i].digitless ? (end == p || (F[i].lone_sign && P.is_signed && end == p + 1)) : end == p + F[i].numlen;
            if (!ok)
            {
                snprintf(key, sizeof key, "parse:%s:end:splitter:%s", P.name, end == before ? "stale" : F[i].digitless ? "digit-less-field" : "number-field");
                vf::fail(key, "line=\"%s\" base=%u field %d at offset %zu (%s): *end = line%+ld%s", line.c_str(), base, i, F[i].start,
                         F[i].digitless ? (F[i].lone_sign ? "lone sign" : "empty") : "number", IS_POISON(end) ? -999999L : (long)(end - in.c()),
                         end == before ? " (unchanged from the previous call)" : "");
            }
            long long want = F[i].want;
            if (!P.is_signed && bits < 64)
                got &= (1ll << bits) - 1;
            if (got != want)
            {
                snprintf(key, sizeof key, "parse:%s:value:splitter", P.name);
                vf::fail(key, "line=\"%s\" base=%u field %d: got %lld want %lld", line.c_str(), base, i, got, want);
            }
        }
        VF_OK("field splitter: one reused end variable follows every field, empty fields and lone signs included");
        vf::count_case(vf::hash_bytes(line.data(), line.size(), base + 64 * (uint64_t)(&P - PARSERS)), nf > 2);
        if (n == 0 && vf::want_sample())
            vf::sample("splitter: %s base %u line \"%s\"", P.name, base, line.c_str());
    }
}
VF_SUITE(splitter, split_count, split_run)


// (h) include-order independence: the inline helpers compiled in translation units whose FIRST include is the igris header
//     (first_hex.c, first_ctype.c, first_vt100.c, first_vt100.cpp) must behave like those of this TU / the reference.
extern "C"
{
    uint8_t fc7_hex2half(char c);
    char fc7_half2hex(uint8_t n);
    int fc7_isalnum(int c);
    int fc7_isdigit(int c);
    int fc7_isxdigit(int c);
    int fc7_isspace(int c);
    int fc7_vt100_left(char *buf, int arg);
    int fx7_vt100_left(char *buf, int arg);
}
static uint64_t first_count() { return 1; }
static void first_run(uint64_t)
{
    vf::cls("first-include");
    for (unsigned d = 0; d < 36; d++)
    {
        if (fc7_hex2half(digit_lc(d)) != d || fc7_hex2half(digit_uc(d)) != d || hex2half(digit_lc(d)) != d || hex2half(digit_uc(d)) != d)
            vf::fail("first-include:hex2half", "digit value %u: first-include TU gives %u/%u, this TU %u/%u", d, fc7_hex2half(digit_lc(d)),
                     fc7_hex2half(digit_uc(d)), hex2half(digit_lc(d)), hex2half(digit_uc(d)));
        if (d < 16 && fc7_half2hex((uint8_t)d) != digit_uc(d))
            vf::fail("first-include:half2hex", "nibble %u -> '%c'", d, fc7_half2hex((uint8_t)d));
    }
    for (int c = -128; c < 256; c++)
    {
        bool dig = c >= '0' && c <= '9', low = c >= 'a' && c <= 'z', up = c >= 'A' && c <= 'Z';
        bool xd = dig || (c >= 'a' && c <= 'f') || (c >= 'A' && c <= 'F'), sp = c == ' ' || (c >= 9 && c <= 13);
        if (!!fc7_isalnum(c) != (dig || low || up) || !!fc7_isdigit(c) != dig || !!fc7_isxdigit(c) != xd || !!fc7_isspace(c) != sp ||
            !!igris_isalnum(c) != (dig || low || up) || !!igris_isdigit(c) != dig || !!igris_isxdigit(c) != xd || !!igris_isspace(c) != sp)
            vf::fail("first-include:ctype", "character code %d classified differently from ASCII", c);
    }
    static const int ARGS[] = {0, 1, 9, 10, 255, 32767, -1, -32768, INT_MAX, INT_MIN};
    for (int a : ARGS)
    {
        char t[72], b1[40], b2[40];
        ref_text(mag_of(a), a < 0, 10, t);
        std::string ref = std::string("\x1B[") + t + "D";
        int r1 = fc7_vt100_left(b1, a), r2 = fx7_vt100_left(b2, a);
        if (ref != b1 || ref != b2 || r1 != (int)ref.size() || r2 != (int)ref.size())
            vf::fail("first-include:vt100_left", "arg=%d C: \"%s\" (%d) C++: \"%s\" (%d)", a, vf::esc(b1, strlen(b1)).c_str(), r1, vf::esc(b2, strlen(b2)).c_str(), r2);
    }
    VF_OK("inline helpers (hex2half, half2hex, igris_is*, vt100_left) behave the same in TUs that include the igris header first");
    vf::count_bulk(1, 1);
}
VF_SUITE(first_include, first_count, first_run)

// (i) calls made during static initialisation of this (earlier-linked) TU, in a forked child; compared by a case.
struct EarlyData7
{
    EarlyText toa[6], shim[4], dpr[3], vt;
    long long parsed[4], atolv;
    long endoff[4];
    long ret_off[2];
};
static void early_calls7(EarlyData7 &E)
{
    char b[80];
    char *r;
    r = igris_i64toa(INT64_MIN, b, 16), E.toa[0].set(b, strlen(b)), E.ret_off[0] = r - b;
    r = igris_u64toa(UINT64_MAX, b, 36), E.toa[1].set(b, strlen(b)), E.ret_off[1] = r - b;
    igris_i32toa(-255, b, 16), E.toa[2].set(b, strlen(b));
    igris_u16toa(65535, b, 2), E.toa[3].set(b, strlen(b));
    igris_i8toa(-128, b, 10), E.toa[4].set(b, strlen(b));
    igris_u32toa(0, b, 7), E.toa[5].set(b, strlen(b));
    igc_itoa(INT_MIN, b, 10), E.shim[0].set(b, strlen(b));
    igc_utoa(4000000000u, b, 16), E.shim[1].set(b, strlen(b));
    igc_ltoa(LONG_MIN, b, 8), E.shim[2].set(b, strlen(b));
    igc_ultoa(ULONG_MAX, b, 36), E.shim[3].set(b, strlen(b));
    char *e = (char *)1;
    E.parsed[0] = igris_atoi64("-7fffffffffffffffz", 16, &e), E.endoff[0] = e == (char *)1 ? -999 : (long)strlen(e);
    e = (char *)1;
    E.parsed[1] = (long long)igris_atou64("ZZ9 ", 36, &e), E.endoff[1] = e == (char *)1 ? -999 : (long)strlen(e);
    e = (char *)1;
    E.parsed[2] = igris_atoi32("-2147483648", 10, &e), E.endoff[2] = e == (char *)1 ? -999 : (long)strlen(e);
    e = (char *)1;
    E.parsed[3] = igris_atou8("11111111x", 2, &e), E.endoff[3] = e == (char *)1 ? -999 : (long)strlen(e);
    E.atolv = igc_atol("-9223372036854775807 ");
    g_capn = 0, debug_printdec_signed_long_long(LLONG_MIN), E.dpr[0].set(g_cap, g_capn);
    g_capn = 0, debug_printhex_uint32(0x89ABCDEFu), E.dpr[1].set(g_cap, g_capn);
    g_capn = 0, debug_printbin_uint8(0xA5), E.dpr[2].set(g_cap, g_capn);
    vt100_left(b, -42), E.vt.set(b, strlen(b));
}
static EarlyRun<EarlyData7> g_early7(early_calls7);
static uint64_t early_count() { return 1; }
static void early_run(uint64_t)
{
    vf::cls("static-init");
    if (g_early7.hung)
        vf::fail("static-init:hang", "a call made during static initialisation did not return within 5 s of CPU time");
    if (g_early7.died)
        vf::fail("static-init:crash", "the child that calls the converters during static initialisation died (sanitizer report in stderr.txt)");
    const EarlyData7 &E = *g_early7.data;
    auto same = [](const EarlyText &t, const char *want) {
        if (t.len != strlen(want))
            return false;
        for (unsigned i = 0; i < t.len; i++)
            if (tolower((unsigned char)t.d[i]) != tolower((unsigned char)want[i]))
                return false;
        return true;
    };
    static const char *TOA[6] = {"-8000000000000000", "3w5e11264sgsf", "-ff", "1111111111111111", "-128", "0"};
    for (int i = 0; i < 6; i++)
        if (!same(E.toa[i], TOA[i]))
            vf::fail("static-init:igris_*toa:!=reference", "call %d gave \"%s\" want \"%s\"", i, vf::esc(E.toa[i].d, E.toa[i].len).c_str(), TOA[i]);
    if (E.ret_off[0] != 17 || E.ret_off[1] != 13)
        vf::fail("static-init:igris_*toa:returned-pointer", "offsets %ld %ld", E.ret_off[0], E.ret_off[1]);
    static const char *SHIM[4] = {"-2147483648", "ee6b2800", "-1000000000000000000000", "3w5e11264sgsf"};
    for (int i = 0; i < 4; i++)
        if (!same(E.shim[i], SHIM[i]))
            vf::fail("static-init:itoa-family:!=reference", "call %d gave \"%s\" want \"%s\"", i, vf::esc(E.shim[i].d, E.shim[i].len).c_str(), SHIM[i]);
    static const long long PV[4] = {-0x7fffffffffffffffLL, 35 * 36 * 36 + 35 * 36 + 9, -2147483648LL, 255};
    static const long PE[4] = {1, 1, 0, 1}; // characters left behind *end
    for (int i = 0; i < 4; i++)
        if (E.parsed[i] != PV[i] || E.endoff[i] != PE[i])
            vf::fail("static-init:igris_ato*:!=reference", "call %d value %lld (want %lld), %ld characters behind *end (want %ld)", i, E.parsed[i], PV[i],
                     E.endoff[i], PE[i]);
    if (E.atolv != -9223372036854775807LL)
        vf::fail("static-init:atol:!=reference", "got %lld", E.atolv);
    static const char *DPR[3] = {"-9223372036854775808", "89ABCDEF", "10100101"};
    for (int i = 0; i < 3; i++)
        if (!same(E.dpr[i], DPR[i]))
            vf::fail("static-init:dprint:!=reference", "call %d emitted \"%s\" want \"%s\"", i, vf::esc(E.dpr[i].d, E.dpr[i].len).c_str(), DPR[i]);
    if (!same(E.vt, "\x1B[-42D"))
        vf::fail("static-init:vt100_left:!=reference", "got \"%s\"", vf::esc(E.vt.d, E.vt.len).c_str());
    VF_OK("converters called during static initialisation of an earlier-linked TU == reference");
    vf::count_bulk(1, 1);
}
VF_SUITE(static_init, early_count, early_run)

extern "C" void vf_setup()
{
    for (const char *c : {"igris_i*toa text == reference (case-insensitive, uniform case, NUL and returned pointer at the end)",
                          "igris_u*toa text == reference (case-insensitive, uniform case, NUL and returned pointer at the end)",
                          "igris_ato*(text ++ t) == value", "parse stops at NUL and reports it", "parse stops at a non-alphanumeric and reports it",
                          "parse stops at a digit >= base and reports it", "parse stops at a byte >= 0x80 and reports it",
                          "parse accepts upper-case letters", "parse accepts lower-case letters", "itoa/utoa text == reference, returns buf",
                          "ltoa/ultoa text == reference, returns buf", "atol(decimal text ++ t) == value", "atoi(decimal text ++ t) == value",
                          "debug_printdec_signed_* == canonical decimal", "debug_printdec_unsigned_* / uintN == canonical decimal",
                          "debug_printhex_* == fixed-width hexadecimal of the value", "debug_printbin_* == fixed-width binary of the value",
                          "vt100_left == ESC [ decimal D, returns its length",
                          "sweep: i32toa/u32toa == odometer reference; atoi32/atou32 read the text back",
                          "digit-less text: *end written, at the start (signed: or behind a lone '-'), value 0",
                          "field splitter: one reused end variable follows every field, empty fields and lone signs included",
                          "inline helpers (hex2half, half2hex, igris_is*, vt100_left) behave the same in TUs that include the igris header first",
                          "converters called during static initialisation of an earlier-linked TU == reference"})
        vf::require(c);
}
