#include <igris/defs/vt100.h> /* MUST stay the very first include of this translation unit (include-order independence) */
int fc7_vt100_left(char *buf, int arg) { return vt100_left(buf, arg); }
