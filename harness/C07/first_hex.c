#include <igris/util/hexascii.h> /* MUST stay the very first include of this translation unit (include-order independence) */
uint8_t fc7_hex2half(char c) { return hex2half(c); }
char fc7_half2hex(uint8_t n) { return half2hex(n); }
