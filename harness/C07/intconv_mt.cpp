// C07 (TSan unit): the integer <-> text converters are pure functions of their arguments and are called from several
// threads / from an ISR without a lock. Each case runs in a FRESH process (vf::mt_run): 2..4 threads are released
// together, every thread works through every renderer and parser on its own values and buffers (different bases in
// different threads, rotated order) and compares with references computed BEFORE the threads start. A wrong value is
// reported from the mismatch mask, an unsynchronised access inside igris by ThreadSanitizer.
#define VF_MAIN
#include "vf.h"
#include "mt.h"
#include <igris/defs/vt100.h>
#include <igris/dprint/dprint.h>
#include <igris/util/numconvert.h>
#include <climits>
#include <string>
#include "c07_refs.h"

extern "C"
{
    char *igc_itoa(int num, char *buf, unsigned short base);
    char *igc_utoa(unsigned num, char *buf, unsigned short base);
    char *igc_ltoa(long num, char *buf, unsigned short base);
    char *igc_ultoa(unsigned long num, char *buf, unsigned short base);
    long igc_atol(const char *);
    int igc_atoi(const char *);
    void debug_printdec_uint64(uint64_t);
}
// per-thread capture of the debug output
static thread_local char t_cap[256];
static thread_local size_t t_capn;
extern "C" void debug_putchar(char c)
{
    if (t_capn < sizeof t_cap)
        t_cap[t_capn++] = c;
}
extern "C" void debug_write(const char *c, int n)
{
    for (int i = 0; i < n; i++)
        debug_putchar(c[i]);
}

enum { G_TOA = 1, G_ATO = 2, G_SHIM = 4, G_ATOL = 8, G_DPRINT = 16, G_VT100 = 32 };
static const char *GNAME[6] = {"igris_*toa", "igris_ato*", "itoa/utoa/ltoa/ultoa", "atol/atoi", "debug_print dec/hex/bin", "vt100_left"};

struct Item
{
    uint64_t pat;
    unsigned base;
    std::string s64, u64, s32, u32, s16, u16, s8, u8; // reference texts (lower case)
    std::string dec64, hex64, bin16, vt;
};
struct Plan
{
    std::vector<Item> items;
    int order, rounds;
};
static bool same_ci(const char *got, const std::string &ref)
{
    size_t n = strlen(got);
    if (n != ref.size())
        return false;
    for (size_t i = 0; i < n; i++)
    {
        char g = got[i];
        if (g >= 'A' && g <= 'Z')
            g = (char)(g - 'A' + 'a');
        if (g != ref[i])
            return false;
    }
    return true;
}
static std::string rtext(int64_t v, unsigned base)
{
    char t[72];
    ref_text(mag_of(v), v < 0, base, t);
    return t;
}
static std::string utext(uint64_t v, unsigned base)
{
    char t[72];
    ref_text(v, false, base, t);
    return t;
}
static std::string upper(std::string s)
{
    for (auto &c : s)
        if (c >= 'a' && c <= 'z')
            c = (char)(c - 32);
    return s;
}

static unsigned work(const Plan &p)
{
    unsigned bad = 0;
    char b[80];
    for (int round = 0; round < p.rounds; round++)
        for (int k = 0; k < 6; k++)
        {
            int which = (k + p.order) % 6;
            for (const Item &it : p.items)
            {
                uint64_t u = it.pat;
                uint8_t base = (uint8_t)it.base;
                char *e;
                switch (which)
                {
                case 0:
                    if (igris_i64toa((int64_t)u, b, base) != b + it.s64.size() || !same_ci(b, it.s64)) bad |= G_TOA;
                    if (igris_u64toa(u, b, base) != b + it.u64.size() || !same_ci(b, it.u64)) bad |= G_TOA;
                    if (igris_i32toa((int32_t)u, b, base) != b + it.s32.size() || !same_ci(b, it.s32)) bad |= G_TOA;
                    if (igris_u32toa((uint32_t)u, b, base) != b + it.u32.size() || !same_ci(b, it.u32)) bad |= G_TOA;
                    if (igris_i16toa((int16_t)u, b, base) != b + it.s16.size() || !same_ci(b, it.s16)) bad |= G_TOA;
                    if (igris_u16toa((uint16_t)u, b, base) != b + it.u16.size() || !same_ci(b, it.u16)) bad |= G_TOA;
                    if (igris_i8toa((int8_t)u, b, base) != b + it.s8.size() || !same_ci(b, it.s8)) bad |= G_TOA;
                    if (igris_u8toa((uint8_t)u, b, base) != b + it.u8.size() || !same_ci(b, it.u8)) bad |= G_TOA;
                    break;
                case 1:
                {
                    std::string t;
                    t = (round & 1 ? upper(it.s64) : it.s64) + ";", e = (char *)1;
                    if (igris_atoi64(t.c_str(), base, &e) != (int64_t)u || e != t.c_str() + t.size() - 1) bad |= G_ATO;
                    t = (round & 1 ? it.u64 : upper(it.u64)) + " ", e = (char *)1;
                    if (igris_atou64(t.c_str(), base, &e) != u || e != t.c_str() + t.size() - 1) bad |= G_ATO;
                    t = it.s32, e = (char *)1;
                    if (igris_atoi32(t.c_str(), base, &e) != (int32_t)u || e != t.c_str() + t.size()) bad |= G_ATO;
                    t = it.u32 + "{", e = (char *)1;
                    if (igris_atou32(t.c_str(), base, &e) != (uint32_t)u || e != t.c_str() + t.size() - 1) bad |= G_ATO;
                    t = it.s16, e = (char *)1;
                    if (igris_atoi16(t.c_str(), base, &e) != (int16_t)u || e != t.c_str() + t.size()) bad |= G_ATO;
                    t = it.u16, e = (char *)1;
                    if (igris_atou16(t.c_str(), base, &e) != (uint16_t)u || e != t.c_str() + t.size()) bad |= G_ATO;
                    t = it.s8 + "/", e = (char *)1;
                    if (igris_atoi8(t.c_str(), base, &e) != (int8_t)u || e != t.c_str() + t.size() - 1) bad |= G_ATO;
                    t = it.u8, e = (char *)1;
                    if (igris_atou8(t.c_str(), base, &e) != (uint8_t)u || e != t.c_str() + t.size()) bad |= G_ATO;
                    break;
                }
                case 2:
                    if (igc_itoa((int)(uint32_t)u, b, base) != b || !same_ci(b, it.s32)) bad |= G_SHIM;
                    if (igc_utoa((unsigned)u, b, base) != b || !same_ci(b, it.u32)) bad |= G_SHIM;
                    if (igc_ltoa((long)u, b, base) != b || !same_ci(b, it.s64)) bad |= G_SHIM;
                    if (igc_ultoa((unsigned long)u, b, base) != b || !same_ci(b, it.u64)) bad |= G_SHIM;
                    break;
                case 3:
                {
                    std::string t = rtext((int64_t)u, 10) + ",";
                    if (igc_atol(t.c_str()) != (long)u) bad |= G_ATOL;
                    t = rtext((int32_t)u, 10);
                    if (igc_atoi(t.c_str()) != (int)(uint32_t)u) bad |= G_ATOL;
                    break;
                }
                case 4:
                    t_capn = 0, debug_printdec_signed_long_long((long long)u), t_cap[t_capn] = 0;
                    if (!same_ci(t_cap, it.dec64)) bad |= G_DPRINT;
                    t_capn = 0, debug_printhex_uint64(u), t_cap[t_capn] = 0;
                    if (!same_ci(t_cap, it.hex64)) bad |= G_DPRINT;
                    t_capn = 0, debug_printbin_uint16((uint16_t)u), t_cap[t_capn] = 0;
                    if (!same_ci(t_cap, it.bin16)) bad |= G_DPRINT;
                    t_capn = 0, debug_printdec_uint64(u), t_cap[t_capn] = 0;
                    if (!same_ci(t_cap, utext(u, 10))) bad |= G_DPRINT;
                    break;
                default:
                    if (vt100_left(b, (int)(uint32_t)u) != (int)it.vt.size() || it.vt != b) bad |= G_VT100;
                    break;
                }
            }
        }
    return bad;
}

static uint64_t mt_count() { return vf::thorough() ? 3000 : 160; }
static void mt_case(uint64_t idx)
{
    vf::Rng r(vf::seed(), 0xC07E, idx);
    int nthreads = r.range(2, 4);
    Plan plan[4];
    for (int t = 0; t < nthreads; t++)
    {
        Plan &p = plan[t];
        int n = 4 + (int)r.below(8);
        for (int i = 0; i < n; i++)
        {
            Item it;
            it.pat = r.chance(1, 4) ? (r.chance(1, 2) ? 0x8000000000000000ull : ~0ull) >> r.below(3) : r.next() >> r.below(40);
            if (r.chance(1, 3))
                it.pat = 0 - it.pat;
            static const unsigned B[6] = {2, 8, 10, 16, 36, 7};
            it.base = r.chance(1, 2) ? B[(t + i) % 6] : 2 + (unsigned)r.below(35);
            uint64_t u = it.pat;
            it.s64 = rtext((int64_t)u, it.base), it.u64 = utext(u, it.base);
            it.s32 = rtext((int32_t)u, it.base), it.u32 = utext((uint32_t)u, it.base);
            it.s16 = rtext((int16_t)u, it.base), it.u16 = utext((uint16_t)u, it.base);
            it.s8 = rtext((int8_t)u, it.base), it.u8 = utext((uint8_t)u, it.base);
            it.dec64 = rtext((int64_t)u, 10);
            it.hex64 = utext(u, 16), it.hex64 = std::string(16 - it.hex64.size(), '0') + it.hex64;
            it.bin16 = utext((uint16_t)u, 2), it.bin16 = std::string(16 - it.bin16.size(), '0') + it.bin16;
            it.vt = "\x1B[" + rtext((int32_t)u, 10) + "D";
            p.items.push_back(it);
        }
        p.order = t < 6 ? (t * 2) % 6 : (int)r.below(6);
        p.rounds = 20 + (int)r.below(40);
    }
    vf::cls("concurrent");
    if (vf::verbose())
        printf("  fresh process, %d threads, every converter per thread, rotated order\n", nthreads);
    int mask = vf::mt_run(nthreads, [&](int tid) -> unsigned { return work(plan[tid]); });
    if (mask < 0)
        vf::fail(mask == -2 ? "concurrent:hang" : "concurrent:child-died", "mt_run returned %d with %d threads", mask, nthreads);
    for (int b = 0; b < 6; b++)
        if (mask & (1 << b))
        {
            char key[120];
            snprintf(key, sizeof key, "concurrent:%s:!=reference", GNAME[b]);
            vf::fail(key, "%d threads in a fresh process: %s disagreed with the reference while other conversions ran in parallel (mask %#x)", nthreads,
                     GNAME[b], mask);
        }
    VF_OK("every renderer and parser called concurrently from 2..4 threads in a fresh process == reference (TSan watching)");
    vf::count_case(vf::mix(idx, vf::seed()), true);
    if (vf::want_sample())
        vf::sample("concurrent: fresh process, %d threads, igris_*toa / igris_ato* (all widths, different bases), itoa family, atol, dprint, vt100_left", nthreads);
}
VF_SUITE(concurrent, mt_count, mt_case)

extern "C" void vf_setup()
{
    vf::require("every renderer and parser called concurrently from 2..4 threads in a fresh process == reference (TSan watching)");
}
