// c07_refs.h — reference renderer written from the definition of positional notation, shared by the C07 harness TUs.
#pragma once
#include <cstdint>
#include <cstring>

// ---------------------------------------------------------------- reference renderers
static inline char digit_lc(unsigned d) { return (char)(d < 10 ? '0' + d : 'a' + (d - 10)); }
static inline char digit_uc(unsigned d) { return (char)(d < 10 ? '0' + d : 'A' + (d - 10)); }
// magnitude -> digits (lower case), most significant first, no leading zeros; returns length
static inline int ref_digits(uint64_t mag, unsigned base, char *out)
{
    char tmp[72];
    int n = 0;
    do
    {
        tmp[n++] = digit_lc((unsigned)(mag % base));
        mag /= base;
    } while (mag);
    for (int i = 0; i < n; i++)
        out[i] = tmp[n - 1 - i];
    out[n] = 0;
    return n;
}
static inline int ref_text(uint64_t mag, bool neg, unsigned base, char *out)
{
    int n = 0;
    if (neg)
        out[n++] = '-';
    return n + ref_digits(mag, base, out + n);
}
static inline uint64_t mag_of(int64_t v) { return v < 0 ? 0 - (uint64_t)v : (uint64_t)v; }

