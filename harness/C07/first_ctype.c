#include <igris/util/ctype.h> /* MUST stay the very first include of this translation unit (include-order independence) */
int fc7_isalnum(int c) { return igris_isalnum(c); }
int fc7_isdigit(int c) { return igris_isdigit(c); }
int fc7_isxdigit(int c) { return igris_isxdigit(c); }
int fc7_isspace(int c) { return igris_isspace(c); }
