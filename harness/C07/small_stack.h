// small_stack.h — run a list of calls inside a pthread with a SMALL stack (embedded targets have a few KiB..256 KiB) in a
// forked child. The thread announces the routine it is about to call in shared memory, so that a crash (stack overflow
// of a VLA / alloca / large local array sized from the input) is attributed: small-stack:<routine>:crash.
#pragma once
#include <csignal>
#include <cstring>
#include <functional>
#include <pthread.h>
#include <sys/mman.h>
#include <sys/resource.h>
#include <sys/wait.h>
#include <unistd.h>

struct SmallStackShared
{
    volatile int current; // index of the routine being called
    volatile unsigned long bad; // bit mask of routines whose result differed from the reference
};
struct SmallStackOutcome
{
    int current;      // last announced routine
    unsigned long bad;
    bool crashed, hung;
    int sig;
};
struct SmallStackJob
{
    const std::function<void(SmallStackShared &)> *fn;
    SmallStackShared *sh;
};
static inline void *small_stack_thread(void *p)
{
    SmallStackJob *j = (SmallStackJob *)p;
    (*j->fn)(*j->sh);
    return nullptr;
}
static inline SmallStackOutcome run_small_stack(size_t stack_bytes, const std::function<void(SmallStackShared &)> &fn, int cpu_limit_s = 30)
{
    SmallStackShared *sh = (SmallStackShared *)mmap(nullptr, sizeof(SmallStackShared), PROT_READ | PROT_WRITE, MAP_SHARED | MAP_ANONYMOUS, -1, 0);
    sh->current = -1;
    sh->bad = 0;
    fflush(nullptr);
    pid_t pid = fork();
    if (pid == 0)
    {
        struct rlimit rl = {(rlim_t)cpu_limit_s, (rlim_t)cpu_limit_s + 1};
        setrlimit(RLIMIT_CPU, &rl);
        struct rlimit nocore = {0, 0};
        setrlimit(RLIMIT_CORE, &nocore);
#ifdef VF_MAIN
        // a scratch area far larger than the stack can jump over the guard page and land in another mapping: keep the
        // runner's shared tables out of reach (the unit is also compiled with -fstack-clash-protection)
        mprotect((void *)vf::g().sh, sizeof(vf::Shared), PROT_READ);
        mprotect((void *)vf::g().htab, (vf::g().hmask + 1) * 8, PROT_READ);
        mprotect((void *)vf::g().stab, (vf::g().smask + 1) * 8, PROT_READ);
#endif
        pthread_attr_t at;
        pthread_attr_init(&at);
        pthread_attr_setstacksize(&at, stack_bytes);
        SmallStackJob job{&fn, sh};
        pthread_t th;
        if (pthread_create(&th, &at, small_stack_thread, &job) != 0)
            _exit(99);
        pthread_join(th, nullptr);
        _exit(0);
    }
    int st = 0;
    waitpid(pid, &st, 0);
    SmallStackOutcome o;
    o.current = sh->current;
    o.bad = sh->bad;
    o.crashed = !(WIFEXITED(st) && WEXITSTATUS(st) == 0);
    o.sig = WIFSIGNALED(st) ? WTERMSIG(st) : 0;
    o.hung = WIFSIGNALED(st) && (WTERMSIG(st) == SIGXCPU || WTERMSIG(st) == SIGKILL);
    munmap(sh, sizeof(SmallStackShared));
    return o;
}
