#include <igris/util/hexascii.h> /* MUST stay the very first include of this translation unit (include-order independence) */
/* No system header is included before the igris header and nothing after it: whatever the igris header needs it has to
   bring along itself. Thin wrappers around every inline helper; codec.cpp compares them with the reference. */
char fc_half2hex(uint8_t n) { return half2hex(n); }
uint8_t fc_hex2half(char c) { return hex2half(c); }
uint8_t fc_hex2byte(char hi, char lo) { return hex2byte(hi, lo); }
void fc_uint8_to_hex(char *h, uint8_t v) { uint8_to_hex(h, v); }
void fc_uint16_to_hex(char *h, uint16_t v) { uint16_to_hex(h, v); }
void fc_uint32_to_hex(char *h, uint32_t v) { uint32_to_hex(h, v); }
void fc_uint64_to_hex(char *h, uint64_t v) { uint64_to_hex(h, v); }
uint8_t fc_hex_to_uint8(const char *h) { return hex_to_uint8(h); }
uint16_t fc_hex_to_uint16(const char *h) { return hex_to_uint16(h); }
uint32_t fc_hex_to_uint32(const char *h) { return hex_to_uint32(h); }
uint64_t fc_hex_to_uint64(const char *h) { return hex_to_uint64(h); }
