// c18_refs.h — references written from RFC 4648 / positional notation, shared by the C18 harness TUs.
#pragma once
#include <cstdint>
#include <cstring>
#include <string>

// ---------------------------------------------------------------- references
static const char HEXU[] __attribute__((unused)) = "0123456789ABCDEF";
static inline std::string ref_hex(const uint8_t *d, size_t n)
{
    std::string s;
    for (size_t i = 0; i < n; i++)
    {
        s += HEXU[d[i] / 16];
        s += HEXU[d[i] % 16];
    }
    return s;
}
// value -> fixed-width big-endian (most significant digit first) upper-case hex, by division
static inline std::string ref_hex_value(uint64_t v, int digits)
{
    std::string s(digits, '0');
    for (int i = digits - 1; i >= 0; i--, v /= 16)
        s[i] = HEXU[v % 16];
    return s;
}
// RFC 4648 section 4 / 5, bit-stream formulation (6 bits at a time out of a bit accumulator)
static inline std::string ref_b64(const uint8_t *d, size_t n, bool url)
{
    static const char STD[] = "ABCDEFGHIJKLMNOPQRSTUVWXYZabcdefghijklmnopqrstuvwxyz0123456789+/";
    static const char URL[] = "ABCDEFGHIJKLMNOPQRSTUVWXYZabcdefghijklmnopqrstuvwxyz0123456789-_";
    const char *A = url ? URL : STD;
    std::string s;
    uint32_t acc = 0;
    int bits = 0;
    for (size_t i = 0; i < n; i++)
    {
        acc = (acc << 8) | d[i];
        bits += 8;
        while (bits >= 6)
        {
            bits -= 6;
            s += A[(acc >> bits) & 63];
        }
    }
    if (bits)
        s += A[(acc << (6 - bits)) & 63];
    while (s.size() % 4)
        s += '=';
    return s;
}
static inline bool in_alphabet(const std::string &s, bool url)
{
    for (char ch : s)
    {
        unsigned char c = (unsigned char)ch;
        bool ok = (c >= 'A' && c <= 'Z') || (c >= 'a' && c <= 'z') || (c >= '0' && c <= '9') || c == '=' ||
                  (url ? (c == '-' || c == '_') : (c == '+' || c == '/'));
        if (!ok)
            return false;
    }
    return true;
}

