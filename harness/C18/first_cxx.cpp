#include <igris/util/hexascii.h> // MUST stay the very first include of this translation unit (include-order independence)
// C++ twin of first_c.c: no system header before the igris header, nothing after it.
extern "C" {
char fx_half2hex(uint8_t n) { return half2hex(n); }
uint8_t fx_hex2half(char c) { return hex2half(c); }
uint8_t fx_hex2byte(char hi, char lo) { return hex2byte(hi, lo); }
void fx_uint8_to_hex(char *h, uint8_t v) { uint8_to_hex(h, v); }
void fx_uint16_to_hex(char *h, uint16_t v) { uint16_to_hex(h, v); }
void fx_uint32_to_hex(char *h, uint32_t v) { uint32_to_hex(h, v); }
void fx_uint64_to_hex(char *h, uint64_t v) { uint64_to_hex(h, v); }
uint8_t fx_hex_to_uint8(const char *h) { return hex_to_uint8(h); }
uint16_t fx_hex_to_uint16(const char *h) { return hex_to_uint16(h); }
uint32_t fx_hex_to_uint32(const char *h) { return hex_to_uint32(h); }
uint64_t fx_hex_to_uint64(const char *h) { return hex_to_uint64(h); }
}
