// C18 (plain unit, no sanitizer): every codec entry point on LARGE inputs from a thread with a SMALL stack.
// Embedded users of igris run with stacks of a few hundred KiB at most; a codec that keeps a scratch copy sized from its
// input on the stack (VLA, alloca, big local array) works for every short input and overflows the stack for a long one.
// Each case: fork, pthread with a 128 / 192 / 256 KiB stack, inputs of 64 KiB, 300 KiB, 1.5 MiB, 4 MiB; results compared
// with the references computed before; a crash of the child -> small-stack:<routine>:crash.
#define VF_MAIN
#include "vf.h"
#include "small_stack.h"
#include <igris/buffer.h>
#include <igris/string/hexascii_string.h>
#include <igris/util/base64.h>
#include <igris/util/hexascii.h>
#include "c18_refs.h"

static const char *RNAME[11] = {"base64_encode", "base64_encode(string)", "base64url_encode", "base64url_encode(string)", "base64_decode", "base64url_decode",
                                "hexascii_encode(C)", "hexascii_decode(C)", "hexascii_encode(ptr,size)", "hexascii_encode(string)", "hexascii_encode(buffer)"};
static const size_t SIZES[4] = {64 << 10, 300 << 10, 1536 << 10, 4 << 20};
static const size_t STACKS[3] = {128 << 10, 192 << 10, 256 << 10};

static uint64_t ss_count() { return 4 * 3; }
static void ss_run(uint64_t c)
{
    size_t n = SIZES[c % 4] + (size_t)((vf::seed() * 7 + c) % 3), stack = STACKS[c / 4];
    vf::Rng r(vf::seed(), 0xC185, c);
    std::vector<uint8_t> msg(n);
    for (size_t i = 0; i < n; i += 8)
    {
        uint64_t v = r.next();
        memcpy(&msg[i], &v, n - i < 8 ? n - i : 8);
    }
    std::string raw((const char *)msg.data(), n), b64 = ref_b64(msg.data(), n, false), url = ref_b64(msg.data(), n, true), hex = ref_hex(msg.data(), n);
    std::string chex(2 * n, '?'), cdec(n, '?'); // heap outputs for the C routines
    vf::cls("small-stack");
    if (vf::verbose())
        printf("  %zu input bytes, thread stack %zu KiB, all 11 codec entry points\n", n, stack >> 10);
    SmallStackOutcome o = run_small_stack(stack, [&](SmallStackShared &sh) {
        const uint8_t *d = msg.data();
        auto chk = [&](int i, bool ok) { if (!ok) sh.bad |= 1ul << i; };
        sh.current = 0, chk(0, igris::base64_encode(d, n) == b64);
        sh.current = 1, chk(1, igris::base64_encode(raw) == b64);
        sh.current = 2, chk(2, igris::base64url_encode(d, n) == url);
        sh.current = 3, chk(3, igris::base64url_encode(raw) == url);
        sh.current = 4, chk(4, igris::base64_decode(b64) == raw);
        sh.current = 5, chk(5, igris::base64url_decode(url) == raw);
        sh.current = 6, hexascii_encode(d, (int)n, &chex[0]), chk(6, chex == hex);
        sh.current = 7, hexascii_decode(hex.data(), (int)(2 * n), &cdec[0]), chk(7, cdec == raw);
        sh.current = 8, chk(8, igris::hexascii_encode(d, n) == hex);
        sh.current = 9, chk(9, igris::hexascii_encode(raw) == hex);
        sh.current = 10, chk(10, igris::hexascii_encode(igris::buffer((const void *)d, n)) == hex);
        sh.current = 11;
    });
    char key[120];
    if (o.crashed)
    {
        const char *rn = o.current >= 0 && o.current < 11 ? RNAME[o.current] : "harness";
        snprintf(key, sizeof key, "small-stack:%s:%s", rn, o.hung ? "hang" : "crash");
        vf::fail(key, "%zu input bytes on a %zu KiB thread stack: child ended with signal %d while in %s", n, stack >> 10, o.sig, rn);
    }
    for (int i = 0; i < 11; i++)
        if (o.bad & (1ul << i))
        {
            snprintf(key, sizeof key, "small-stack:%s:!=reference", RNAME[i]);
            vf::fail(key, "%zu input bytes on a %zu KiB thread stack: result differs from the reference", n, stack >> 10);
        }
    VF_OK("every codec entry point on 64 KiB .. 4 MiB inputs from a thread with a 128..256 KiB stack == reference");
    vf::count_bulk(11, 11);
    if (c == 3)
        vf::sample("small-stack: %zu bytes, %zu KiB stack, base64/base64url encode+decode, hexascii C and C++", n, stack >> 10);
}
VF_SUITE(small_stack, ss_count, ss_run)

extern "C" void vf_setup() { vf::require("every codec entry point on 64 KiB .. 4 MiB inputs from a thread with a 128..256 KiB stack == reference"); }
