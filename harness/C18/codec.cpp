// C18 — hexascii and base64 codecs vs. RFC 4648 / positional-hex references written from the definitions;
// inputs in exactly-sized heap blocks (both placements), outputs in exactly-sized blocks, ASan+UBSan.
#define VF_MAIN
#include "vf.h"
#include "guard.h"
#include <igris/buffer.h>
#include <igris/string/hexascii_string.h>
#include <igris/util/base64.h>
#include <igris/util/hexascii.h>
#include <string>
#include <vector>

#include "c18_refs.h"
#include "early_fork.h"

// wrappers compiled in translation units whose FIRST include is <igris/util/hexascii.h> (first_c.c, first_cxx.cpp)
extern "C"
{
#define FO_DECL(p)                                                                                          \
    char p##half2hex(uint8_t); uint8_t p##hex2half(char); uint8_t p##hex2byte(char, char);                  \
    void p##uint8_to_hex(char *, uint8_t); void p##uint16_to_hex(char *, uint16_t);                         \
    void p##uint32_to_hex(char *, uint32_t); void p##uint64_to_hex(char *, uint64_t);                       \
    uint8_t p##hex_to_uint8(const char *); uint16_t p##hex_to_uint16(const char *);                         \
    uint32_t p##hex_to_uint32(const char *); uint64_t p##hex_to_uint64(const char *);
    FO_DECL(fc_)
    FO_DECL(fx_)
}
// REDUCED: second build with -funsigned-char runs a fraction of the random workload
#ifdef C18_REDUCED
static const uint64_t REDUCE = 8;
#else
static const uint64_t REDUCE = 1;
#endif

// ---------------------------------------------------------------- one byte string through every codec
static void check_bytes(const uint8_t *msg, size_t n, unsigned misalign)
{
    std::string w = vf::hex(msg, n, 48);
    if (vf::verbose())
        printf("  bytes n=%zu misalign=%u %s\n", n, misalign, w.c_str());
    std::string rhex = ref_hex(msg, n);

    for (int mirror = 0; mirror < 2; mirror++)
    {
        vf::Exact in(msg, n, misalign, mirror);
        // ---- C hexascii_encode: exactly 2n characters, nothing else written
        {
            vf::cls("hexascii_encode");
            vf::Exact out(nullptr, 2 * n, misalign & 3, !mirror); // red zone directly behind / before the 2n bytes
            hexascii_encode(in.p, (int)n, out.p);
            if (memcmp(out.p, rhex.data(), 2 * n) != 0)
                vf::fail("hexascii_encode:!=reference", "in=%s got=%s ref=%s", w.c_str(), vf::esc(out.p, 2 * n).c_str(), rhex.c_str());
            VF_OK("hexascii_encode == upper-case hex reference, 2n chars");
            // ---- C hexascii_decode of what the encoder produced
            vf::cls("hexascii_decode");
            vf::Exact enc(rhex.data(), 2 * n, misalign & 1, mirror);
            vf::Exact dec(nullptr, n, 0, mirror);
            hexascii_decode(enc.p, (int)(2 * n), dec.p);
            if (n && memcmp(dec.p, msg, n) != 0)
                vf::fail("hexascii_decode:roundtrip", "in=%s decoded=%s", w.c_str(), vf::hex(dec.p, n, 48).c_str());
            VF_OK("hexascii_decode(hexascii_encode(x)) == x");
        }
        // ---- C++ hexascii_encode overloads
        {
            vf::cls("igris::hexascii_encode");
            std::string a = igris::hexascii_encode(in.p, n);
            std::string b = igris::hexascii_encode(igris::buffer((const void *)in.p, n));
            if (a != rhex)
                vf::fail("hexascii_encode(ptr,size):!=reference", "in=%s got=%s ref=%s", w.c_str(), vf::esc(a.data(), a.size()).c_str(), rhex.c_str());
            if (b != rhex)
                vf::fail("hexascii_encode(buffer):!=reference", "in=%s got=%s ref=%s", w.c_str(), vf::esc(b.data(), b.size()).c_str(), rhex.c_str());
            if (!mirror)
            {
                std::string c = igris::hexascii_encode(std::string((const char *)msg, n));
                if (c != rhex)
                    vf::fail("hexascii_encode(string):!=reference", "in=%s got=%s ref=%s", w.c_str(), vf::esc(c.data(), c.size()).c_str(), rhex.c_str());
            }
            VF_OK("igris::hexascii_encode overloads == reference, size 2n");
        }
        // ---- base64, standard and url-safe
        for (int url = 0; url < 2; url++)
        {
            vf::cls(url ? "base64url_encode" : "base64_encode");
            std::string ref = ref_b64(msg, n, url);
            std::string e = url ? igris::base64url_encode(in.p, n) : igris::base64_encode(in.p, n);
            const char *nm = url ? "base64url" : "base64";
            char key[96];
            if (e.size() != 4 * ((n + 2) / 3))
            {
                snprintf(key, sizeof key, "%s_encode:length:n%%3=%zu", nm, n % 3);
                vf::fail(key, "in=%s n=%zu got len %zu (%s) want %zu", w.c_str(), n, e.size(), vf::esc(e.data(), e.size()).c_str(), 4 * ((n + 2) / 3));
            }
            VF_OK("base64 length == 4*ceil(n/3)");
            if (!in_alphabet(e, url))
            {
                snprintf(key, sizeof key, "%s_encode:alphabet", nm);
                vf::fail(key, "in=%s got=%s", w.c_str(), vf::esc(e.data(), e.size()).c_str());
            }
            VF_OK("base64 output within the documented alphabet");
            if (e != ref)
            {
                snprintf(key, sizeof key, "%s_encode:!=rfc4648:n%%3=%zu", nm, n % 3);
                vf::fail(key, "in=%s got=%s ref=%s", w.c_str(), vf::esc(e.data(), e.size()).c_str(), ref.c_str());
            }
            VF_OK("base64 encode == RFC 4648 reference");
            if (!mirror)
            {
                std::string e2 = url ? igris::base64url_encode(std::string((const char *)msg, n)) : igris::base64_encode(std::string((const char *)msg, n));
                if (e2 != ref)
                {
                    snprintf(key, sizeof key, "%s_encode(string):!=rfc4648", nm);
                    vf::fail(key, "in=%s got=%s ref=%s", w.c_str(), vf::esc(e2.data(), e2.size()).c_str(), ref.c_str());
                }
                VF_OK("base64 encode(std::string) == reference");
            }
            vf::cls(url ? "base64url_decode" : "base64_decode");
            // decode what the reference encoder produces (== what the igris encoder must produce)
            std::string d = url ? igris::base64url_decode(ref) : igris::base64_decode(ref);
            if (d.size() != n || (n && memcmp(d.data(), msg, n) != 0))
            {
                snprintf(key, sizeof key, "%s_decode:roundtrip", nm);
                vf::fail(key, "in=%s text=%s decoded(len %zu)=%s", w.c_str(), ref.c_str(), d.size(), vf::hex(d.data(), d.size(), 48).c_str());
            }
            if (url)
                VF_OK("base64url_decode(base64url_encode(x)) == x");
            else
                VF_OK("base64_decode(base64_encode(x)) == x");
        }
    }
    vf::count_case(vf::hash_bytes(msg, n, misalign), n >= 1);
}

// ---------------------------------------------------------------- suites
// (a) all byte strings of length <= L over a 6-symbol alphabet (sign bit, 0xFB -> '+', '/' , '-' '_' classes)
static const uint8_t ALPHA[6] = {0x00, 0x7F, 0x80, 0xFF, 'a', 0xFB};
static int enum_maxlen() { return vf::thorough() ? 5 : 4; }
static uint64_t enum_total()
{
    uint64_t t = 0, p = 1;
    for (int l = 0; l <= enum_maxlen(); l++, p *= 6)
        t += p;
    return t;
}
static const uint64_t ENUM_BATCH = 16;
static uint64_t enum_count() { return (enum_total() + ENUM_BATCH - 1) / ENUM_BATCH; }
static void enum_run(uint64_t c)
{
    for (uint64_t k = c * ENUM_BATCH; k < (c + 1) * ENUM_BATCH && k < enum_total(); k++)
    {
        uint64_t idx = k, p = 1;
        int len = 0;
        while (idx >= p)
        {
            idx -= p;
            p *= 6;
            len++;
        }
        uint8_t m[8];
        for (int i = 0; i < len; i++, idx /= 6)
            m[i] = ALPHA[idx % 6];
        check_bytes(m, len, (unsigned)(k % 4));
        if (len == 4 && vf::want_sample())
            vf::sample("enum: bytes=%s -> hex, base64, base64url, both placements", vf::hex(m, len).c_str());
    }
}
VF_SUITE(shortstrings, enum_count, enum_run)

// (b) random byte strings up to 300 bytes
static const uint64_t RAND_BATCH = 50;
static uint64_t rand_count() { return (vf::thorough() ? 5000000ull : 100000ull) / RAND_BATCH / REDUCE; }
static void rand_run(uint64_t c)
{
    vf::Rng r(vf::seed(), 0xC18, c);
    for (uint64_t k = 0; k < RAND_BATCH; k++)
    {
        size_t len = r.chance(1, 2) ? r.below(13) : r.chance(3, 4) ? r.below(64) : r.below(301);
        uint8_t m[300];
        int mode = r.below(5);
        for (size_t i = 0; i < len; i++)
            m[i] = mode == 0 ? (uint8_t)r.next() : mode == 1 ? ALPHA[r.below(6)] : mode == 2 ? (uint8_t)(0xF8 | r.below(8))
                 : mode == 3 ? (uint8_t)(r.below(4) << 6 | 0x3E | r.below(2)) : (uint8_t)(r.chance(1, 6) ? r.next() : 0xFF);
        check_bytes(m, len, (unsigned)r.below(8));
        if (len > 12 && vf::want_sample())
            vf::sample("random: len=%zu bytes=%s", len, vf::hex(m, len, 24).c_str());
    }
}
VF_SUITE(randstrings, rand_count, rand_run)

// (c) nibble/byte helpers and fixed-width helpers
template <class T> static T biased(vf::Rng &r)
{
    const int W = sizeof(T) * 8;
    uint64_t v;
    switch (r.below(6))
    {
    case 0: v = r.next(); break;
    case 1: v = (1ull << r.below(W)) + (uint64_t)r.range(-2, 2); break;
    case 2: v = ~((1ull << r.below(W)) + (uint64_t)r.range(-2, 2)); break;
    case 3: { v = 0; for (int i = 0; i < (int)sizeof(T); i++) v = v << 8 | (r.chance(1, 2) ? (r.chance(1, 2) ? 0xFF : 0x00) : (r.chance(1, 2) ? 0xA0 | r.below(16) : r.below(256))); break; }
    case 4: { v = 0; for (int i = 0; i < W / 4; i++) v = v << 4 | (9 + r.below(3)); break; } // around the digit/letter seam 9,A,B
    default: v = r.next() >> r.below(W); break;
    }
    return (T)v;
}
template <class T, class ENC, class DEC> static void fixed_one(T v, const char *name, ENC enc, DEC dec, unsigned mis, const char *variant = "")
{
    const int D = sizeof(T) * 2;
    char key[96];
    vf::cls(name);
    if (vf::verbose())
        printf("  %s value=%llx\n", name, (unsigned long long)v);
    std::string ref = ref_hex_value((uint64_t)v, D);
    for (int mirror = 0; mirror < 2; mirror++)
    {
        vf::Exact out(nullptr, D, mis, mirror); // exactly D characters, no terminator
        enc(out.c(), v);
        if (memcmp(out.p, ref.data(), D) != 0)
        {
            snprintf(key, sizeof key, "%s_to_hex:!=reference%s", name, variant);
            vf::fail(key, "value=%llx got=%s ref=%s", (unsigned long long)v, vf::esc(out.p, D).c_str(), ref.c_str());
        }
        vf::Exact in(ref.data(), D, mis, mirror);
        T back = dec(in.cc());
        if (back != v)
        {
            snprintf(key, sizeof key, "hex_to_%s:roundtrip%s", name, variant);
            vf::fail(key, "value=%llx text=%s decoded=%llx", (unsigned long long)v, ref.c_str(), (unsigned long long)back);
        }
    }
}
static void fixed8(uint8_t v, unsigned m)
{
    fixed_one<uint8_t>(v, "uint8", [](char *h, uint8_t x) { uint8_to_hex(h, x); }, [](const char *h) { return hex_to_uint8(h); }, m);
    fixed_one<uint8_t>(v, "uint8", fc_uint8_to_hex, fc_hex_to_uint8, m, ":first-include-c");
    fixed_one<uint8_t>(v, "uint8", fx_uint8_to_hex, fx_hex_to_uint8, m, ":first-include-c++");
    VF_OK("uint8_to_hex == reference and hex_to_uint8 inverts it");
    VF_OK("fixed-width helpers give the same text/value in TUs that include the igris header first (C and C++)");
}
static void fixed16(uint16_t v, unsigned m)
{
    fixed_one<uint16_t>(v, "uint16", [](char *h, uint16_t x) { uint16_to_hex(h, x); }, [](const char *h) { return hex_to_uint16(h); }, m);
    fixed_one<uint16_t>(v, "uint16", fc_uint16_to_hex, fc_hex_to_uint16, m, ":first-include-c");
    fixed_one<uint16_t>(v, "uint16", fx_uint16_to_hex, fx_hex_to_uint16, m, ":first-include-c++");
    VF_OK("uint16_to_hex == reference and hex_to_uint16 inverts it");
    VF_OK("fixed-width helpers give the same text/value in TUs that include the igris header first (C and C++)");
}
static void fixed32(uint32_t v, unsigned m)
{
    fixed_one<uint32_t>(v, "uint32", [](char *h, uint32_t x) { uint32_to_hex(h, x); }, [](const char *h) { return hex_to_uint32(h); }, m);
    fixed_one<uint32_t>(v, "uint32", fc_uint32_to_hex, fc_hex_to_uint32, m, ":first-include-c");
    fixed_one<uint32_t>(v, "uint32", fx_uint32_to_hex, fx_hex_to_uint32, m, ":first-include-c++");
    VF_OK("uint32_to_hex == reference and hex_to_uint32 inverts it");
    VF_OK("fixed-width helpers give the same text/value in TUs that include the igris header first (C and C++)");
}
static void fixed64(uint64_t v, unsigned m)
{
    fixed_one<uint64_t>(v, "uint64", [](char *h, uint64_t x) { uint64_to_hex(h, x); }, [](const char *h) { return hex_to_uint64(h); }, m);
    fixed_one<uint64_t>(v, "uint64", fc_uint64_to_hex, fc_hex_to_uint64, m, ":first-include-c");
    fixed_one<uint64_t>(v, "uint64", fx_uint64_to_hex, fx_hex_to_uint64, m, ":first-include-c++");
    VF_OK("uint64_to_hex == reference and hex_to_uint64 inverts it");
    VF_OK("fixed-width helpers give the same text/value in TUs that include the igris header first (C and C++)");
}

// all 8- and 16-bit values: case c covers 16-bit values [c*256, c*256+255]; case 0 also the nibble helpers
static uint64_t small_count() { return 256; }
static void small_run(uint64_t c)
{
    if (c == 0)
    {
        vf::cls("half2hex/hex2half");
        for (unsigned n = 0; n < 16; n++)
        {
            char h = half2hex((uint8_t)n);
            if (h != HEXU[n])
                vf::fail("half2hex:!=reference", "n=%u got '%c'", n, h);
            if (hex2half(h) != n)
                vf::fail("hex2half:roundtrip", "n=%u text '%c' -> %u", n, h, hex2half(h));
        }
        for (unsigned b = 0; b < 256; b++)
            if (hex2byte(HEXU[b / 16], HEXU[b % 16]) != b)
                vf::fail("hex2byte:!=reference", "byte=%02x got %02x", b, hex2byte(HEXU[b / 16], HEXU[b % 16]));
        for (unsigned n = 0; n < 16; n++)
            if (fc_half2hex((uint8_t)n) != HEXU[n] || fx_half2hex((uint8_t)n) != HEXU[n] || fc_hex2half(HEXU[n]) != n || fx_hex2half(HEXU[n]) != n)
                vf::fail("half2hex/hex2half:first-include", "n=%u", n);
        for (unsigned b = 0; b < 256; b++)
            if (fc_hex2byte(HEXU[b / 16], HEXU[b % 16]) != b || fx_hex2byte(HEXU[b / 16], HEXU[b % 16]) != b)
                vf::fail("hex2byte:first-include", "byte=%02x", b);
        VF_OK("half2hex upper-case, hex2half/hex2byte invert it (all nibbles, all bytes)");
        vf::sample("fixed-width: all 256 uint8, all 65536 uint16 values, both buffer placements");
    }
    fixed8((uint8_t)c, (unsigned)(c % 4));
    for (unsigned lo = 0; lo < 256; lo++)
        fixed16((uint16_t)(c * 256 + lo), lo % 4);
    vf::count_bulk(257, 257);
}
VF_SUITE(small_values, small_count, small_run)

static const uint64_t WIDE_BATCH = 500;
static uint64_t wide_count() { return (vf::thorough() ? 4000000ull : 200000ull) / WIDE_BATCH / REDUCE; }
static void wide_run(uint64_t c)
{
    vf::Rng r(vf::seed(), 0xC18F, c);
    for (uint64_t k = 0; k < WIDE_BATCH; k++)
    {
        uint32_t a = biased<uint32_t>(r);
        uint64_t b = biased<uint64_t>(r);
        unsigned m = (unsigned)r.below(8);
        fixed32(a, m);
        fixed64(b, m);
        vf::count_case(vf::mix(a, 32), a != 0);
        vf::count_case(vf::mix(b, 64), b != 0);
        if (k == 0 && vf::want_sample())
            vf::sample("wide: uint32=%08x uint64=%016llx", a, (unsigned long long)b);
    }
}
VF_SUITE(wide_values, wide_count, wide_run)


// (d) calls made during static initialisation. This object lives in a harness TU; harness objects are linked in front of
//     the /repo objects, so its constructor runs before any initialiser inside the igris TUs. An entry point that
//     depends on a table / object set up by a dynamic initialiser of its own TU returns garbage here.
static const uint8_t EARLY_BYTES[11] = {0x00, 0x7F, 0x80, 0xFF, 'a', 0xFB, 0xFE, 0x10, 0x9A, 0xBC, 0x3E};
struct EarlyData
{
    EarlyText b64[12], b64s[12], url[12], urls[12], dec[12], udec[12], hx_ptr[12], hx_str[12], hx_buf[12], chex[12], cdec[12], fixed[4];
    uint64_t back[4];
};
static void early_calls(EarlyData &E)
{
    for (size_t n = 0; n <= 11; n++)
    {
        std::string in((const char *)EARLY_BYTES, n), t;
        t = igris::base64_encode(EARLY_BYTES, n), E.b64[n].set(t.data(), t.size());
        t = igris::base64_encode(in), E.b64s[n].set(t.data(), t.size());
        t = igris::base64url_encode(EARLY_BYTES, n), E.url[n].set(t.data(), t.size());
        t = igris::base64url_encode(in), E.urls[n].set(t.data(), t.size());
        t = igris::base64_decode(ref_b64(EARLY_BYTES, n, false)), E.dec[n].set(t.data(), t.size());
        t = igris::base64url_decode(ref_b64(EARLY_BYTES, n, true)), E.udec[n].set(t.data(), t.size());
        t = igris::hexascii_encode(EARLY_BYTES, n), E.hx_ptr[n].set(t.data(), t.size());
        t = igris::hexascii_encode(in), E.hx_str[n].set(t.data(), t.size());
        t = igris::hexascii_encode(igris::buffer((const void *)EARLY_BYTES, n)), E.hx_buf[n].set(t.data(), t.size());
        char chex[24];
        uint8_t cdec[12];
        memset(chex, 0, sizeof chex);
        hexascii_encode(EARLY_BYTES, (int)n, chex);
        E.chex[n].set(chex, 2 * n);
        memset(cdec, 0x55, sizeof cdec);
        hexascii_decode(ref_hex(EARLY_BYTES, n).data(), (int)(2 * n), cdec);
        E.cdec[n].set((const char *)cdec, n);
    }
    char f[17];
    uint8_to_hex(f, 0xA5), E.fixed[0].set(f, 2);
    uint16_to_hex(f, 0xB00F), E.fixed[1].set(f, 4);
    uint32_to_hex(f, 0x89ABCDEFu), E.fixed[2].set(f, 8);
    uint64_to_hex(f, 0x0123456789ABCDEFull), E.fixed[3].set(f, 16);
    E.back[0] = hex_to_uint8("A5");
    E.back[1] = hex_to_uint16("B00F");
    E.back[2] = hex_to_uint32("89ABCDEF");
    E.back[3] = hex_to_uint64("0123456789ABCDEF");
}
static EarlyRun<EarlyData> g_early_run(early_calls);
static std::string S(const EarlyText &t) { return std::string(t.d, t.len < sizeof t.d ? t.len : sizeof t.d); }
static void early_cmp(const char *routine, size_t n, const std::string &got, const std::string &want)
{
    if (got != want)
    {
        char key[96];
        snprintf(key, sizeof key, "static-init:%s:!=reference", routine);
        vf::fail(key, "called from a static constructor of an earlier-linked TU with %zu bytes: got (len %zu) \"%s\" want \"%s\"", n, got.size(),
                 vf::esc(got.data(), got.size()).c_str(), vf::esc(want.data(), want.size()).c_str());
    }
}
static uint64_t early_count() { return 1; }
static void early_run(uint64_t)
{
    vf::cls("static-init");
    if (g_early_run.hung)
        vf::fail("static-init:hang", "a call made during static initialisation did not return within 5 s of CPU time");
    if (g_early_run.died)
        vf::fail("static-init:crash", "the child that calls every entry point during static initialisation died (sanitizer report in stderr.txt)");
    const EarlyData &g_early = *g_early_run.data;
    for (size_t n = 0; n <= 11; n++)
    {
        std::string raw((const char *)EARLY_BYTES, n), hx = ref_hex(EARLY_BYTES, n);
        early_cmp("base64_encode", n, S(g_early.b64[n]), ref_b64(EARLY_BYTES, n, false));
        early_cmp("base64_encode(string)", n, S(g_early.b64s[n]), ref_b64(EARLY_BYTES, n, false));
        early_cmp("base64url_encode", n, S(g_early.url[n]), ref_b64(EARLY_BYTES, n, true));
        early_cmp("base64url_encode(string)", n, S(g_early.urls[n]), ref_b64(EARLY_BYTES, n, true));
        early_cmp("base64_decode", n, S(g_early.dec[n]), raw);
        early_cmp("base64url_decode", n, S(g_early.udec[n]), raw);
        early_cmp("hexascii_encode(ptr,size)", n, S(g_early.hx_ptr[n]), hx);
        early_cmp("hexascii_encode(string)", n, S(g_early.hx_str[n]), hx);
        early_cmp("hexascii_encode(buffer)", n, S(g_early.hx_buf[n]), hx);
        early_cmp("hexascii_encode(C)", n, S(g_early.chex[n]), hx);
        early_cmp("hexascii_decode(C)", n, S(g_early.cdec[n]), raw);
    }
    static const uint64_t V[4] = {0xA5, 0xB00F, 0x89ABCDEFu, 0x0123456789ABCDEFull};
    for (int i = 0; i < 4; i++)
    {
        early_cmp("uintN_to_hex", 1u << i, S(g_early.fixed[i]), ref_hex_value(V[i], 2 << i));
        if (g_early.back[i] != V[i])
            vf::fail("static-init:hex_to_uintN:!=reference", "width %d got %llx", 8 << i, (unsigned long long)g_early.back[i]);
    }
    VF_OK("every entry point called during static initialisation of an earlier-linked TU == reference");
    vf::count_bulk(1, 1);
}
VF_SUITE(static_init, early_count, early_run)

extern "C" void vf_setup()
{
    for (const char *c : {"hexascii_encode == upper-case hex reference, 2n chars", "hexascii_decode(hexascii_encode(x)) == x",
                          "igris::hexascii_encode overloads == reference, size 2n", "base64 length == 4*ceil(n/3)",
                          "base64 output within the documented alphabet", "base64 encode == RFC 4648 reference",
                          "base64 encode(std::string) == reference", "base64_decode(base64_encode(x)) == x",
                          "base64url_decode(base64url_encode(x)) == x",
                          "half2hex upper-case, hex2half/hex2byte invert it (all nibbles, all bytes)",
                          "fixed-width helpers give the same text/value in TUs that include the igris header first (C and C++)",
                          "every entry point called during static initialisation of an earlier-linked TU == reference",
                          "uint8_to_hex == reference and hex_to_uint8 inverts it", "uint16_to_hex == reference and hex_to_uint16 inverts it",
                          "uint32_to_hex == reference and hex_to_uint32 inverts it", "uint64_to_hex == reference and hex_to_uint64 inverts it"})
        vf::require(c);
}
