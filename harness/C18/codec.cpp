// C18 — hexascii and base64 codecs vs. RFC 4648 / positional-hex references written from the definitions;
// inputs in exactly-sized heap blocks (both placements), outputs in exactly-sized blocks, ASan+UBSan.
#define VF_MAIN
#include "vf.h"
#include "guard.h"
#include <igris/buffer.h>
#include <igris/string/hexascii_string.h>
#include <igris/util/base64.h>
#include <igris/util/hexascii.h>
#include <string>
#include <vector>

// ---------------------------------------------------------------- references
static const char HEXU[] = "0123456789ABCDEF";
static std::string ref_hex(const uint8_t *d, size_t n)
{
    std::string s;
    for (size_t i = 0; i < n; i++)
    {
        s += HEXU[d[i] / 16];
        s += HEXU[d[i] % 16];
    }
    return s;
}
// value -> fixed-width big-endian (most significant digit first) upper-case hex, by division
static std::string ref_hex_value(uint64_t v, int digits)
{
    std::string s(digits, '0');
    for (int i = digits - 1; i >= 0; i--, v /= 16)
        s[i] = HEXU[v % 16];
    return s;
}
// RFC 4648 section 4 / 5, bit-stream formulation (6 bits at a time out of a bit accumulator)
static std::string ref_b64(const uint8_t *d, size_t n, bool url)
{
    static const char STD[] = "ABCDEFGHIJKLMNOPQRSTUVWXYZabcdefghijklmnopqrstuvwxyz0123456789+/";
    static const char URL[] = "ABCDEFGHIJKLMNOPQRSTUVWXYZabcdefghijklmnopqrstuvwxyz0123456789-_";
    const char *A = url ? URL : STD;
    std::string s;
    uint32_t acc = 0;
    int bits = 0;
    for (size_t i = 0; i < n; i++)
    {
        acc = (acc << 8) | d[i];
        bits += 8;
        while (bits >= 6)
        {
            bits -= 6;
            s += A[(acc >> bits) & 63];
        }
    }
    if (bits)
        s += A[(acc << (6 - bits)) & 63];
    while (s.size() % 4)
        s += '=';
    return s;
}
static bool in_alphabet(const std::string &s, bool url)
{
    for (char ch : s)
    {
        unsigned char c = (unsigned char)ch;
        bool ok = (c >= 'A' && c <= 'Z') || (c >= 'a' && c <= 'z') || (c >= '0' && c <= '9') || c == '=' ||
                  (url ? (c == '-' || c == '_') : (c == '+' || c == '/'));
        if (!ok)
            return false;
    }
    return true;
}

// ---------------------------------------------------------------- one byte string through every codec
static void check_bytes(const uint8_t *msg, size_t n, unsigned misalign)
{
    std::string w = vf::hex(msg, n, 48);
    if (vf::verbose())
        printf("  bytes n=%zu misalign=%u %s\n", n, misalign, w.c_str());
    std::string rhex = ref_hex(msg, n);

    for (int mirror = 0; mirror < 2; mirror++)
    {
        vf::Exact in(msg, n, misalign, mirror);
        // ---- C hexascii_encode: exactly 2n characters, nothing else written
        {
            vf::cls("hexascii_encode");
            vf::Exact out(nullptr, 2 * n, misalign & 3, !mirror); // red zone directly behind / before the 2n bytes
            hexascii_encode(in.p, (int)n, out.p);
            if (memcmp(out.p, rhex.data(), 2 * n) != 0)
                vf::fail("hexascii_encode:!=reference", "in=%s got=%s ref=%s", w.c_str(), vf::esc(out.p, 2 * n).c_str(), rhex.c_str());
            VF_OK("hexascii_encode == upper-case hex reference, 2n chars");
            // ---- C hexascii_decode of what the encoder produced
            vf::cls("hexascii_decode");
            vf::Exact enc(rhex.data(), 2 * n, misalign & 1, mirror);
            vf::Exact dec(nullptr, n, 0, mirror);
            hexascii_decode(enc.p, (int)(2 * n), dec.p);
            if (n && memcmp(dec.p, msg, n) != 0)
                vf::fail("hexascii_decode:roundtrip", "in=%s decoded=%s", w.c_str(), vf::hex(dec.p, n, 48).c_str());
            VF_OK("hexascii_decode(hexascii_encode(x)) == x");
        }
        // ---- C++ hexascii_encode overloads
        {
            vf::cls("igris::hexascii_encode");
            std::string a = igris::hexascii_encode(in.p, n);
            std::string b = igris::hexascii_encode(igris::buffer((const void *)in.p, n));
            if (a != rhex)
                vf::fail("hexascii_encode(ptr,size):!=reference", "in=%s got=%s ref=%s", w.c_str(), vf::esc(a.data(), a.size()).c_str(), rhex.c_str());
            if (b != rhex)
                vf::fail("hexascii_encode(buffer):!=reference", "in=%s got=%s ref=%s", w.c_str(), vf::esc(b.data(), b.size()).c_str(), rhex.c_str());
            if (!mirror)
            {
                std::string c = igris::hexascii_encode(std::string((const char *)msg, n));
                if (c != rhex)
                    vf::fail("hexascii_encode(string):!=reference", "in=%s got=%s ref=%s", w.c_str(), vf::esc(c.data(), c.size()).c_str(), rhex.c_str());
            }
            VF_OK("igris::hexascii_encode overloads == reference, size 2n");
        }
        // ---- base64, standard and url-safe
        for (int url = 0; url < 2; url++)
        {
            vf::cls(url ? "base64url_encode" : "base64_encode");
            std::string ref = ref_b64(msg, n, url);
            std::string e = url ? igris::base64url_encode(in.p, n) : igris::base64_encode(in.p, n);
            const char *nm = url ? "base64url" : "base64";
            char key[96];
            if (e.size() != 4 * ((n + 2) / 3))
            {
                snprintf(key, sizeof key, "%s_encode:length:n%%3=%zu", nm, n % 3);
                vf::fail(key, "in=%s n=%zu got len %zu (%s) want %zu", w.c_str(), n, e.size(), vf::esc(e.data(), e.size()).c_str(), 4 * ((n + 2) / 3));
            }
            VF_OK("base64 length == 4*ceil(n/3)");
            if (!in_alphabet(e, url))
            {
                snprintf(key, sizeof key, "%s_encode:alphabet", nm);
                vf::fail(key, "in=%s got=%s", w.c_str(), vf::esc(e.data(), e.size()).c_str());
            }
            VF_OK("base64 output within the documented alphabet");
            if (e != ref)
            {
                snprintf(key, sizeof key, "%s_encode:!=rfc4648:n%%3=%zu", nm, n % 3);
                vf::fail(key, "in=%s got=%s ref=%s", w.c_str(), vf::esc(e.data(), e.size()).c_str(), ref.c_str());
            }
            VF_OK("base64 encode == RFC 4648 reference");
            if (!mirror)
            {
                std::string e2 = url ? igris::base64url_encode(std::string((const char *)msg, n)) : igris::base64_encode(std::string((const char *)msg, n));
                if (e2 != ref)
                {
                    snprintf(key, sizeof key, "%s_encode(string):!=rfc4648", nm);
                    vf::fail(key, "in=%s got=%s ref=%s", w.c_str(), vf::esc(e2.data(), e2.size()).c_str(), ref.c_str());
                }
                VF_OK("base64 encode(std::string) == reference");
            }
            vf::cls(url ? "base64url_decode" : "base64_decode");
            // decode what the reference encoder produces (== what the igris encoder must produce)
            std::string d = url ? igris::base64url_decode(ref) : igris::base64_decode(ref);
            if (d.size() != n || (n && memcmp(d.data(), msg, n) != 0))
            {
                snprintf(key, sizeof key, "%s_decode:roundtrip", nm);
                vf::fail(key, "in=%s text=%s decoded(len %zu)=%s", w.c_str(), ref.c_str(), d.size(), vf::hex(d.data(), d.size(), 48).c_str());
            }
            if (url)
                VF_OK("base64url_decode(base64url_encode(x)) == x");
            else
                VF_OK("base64_decode(base64_encode(x)) == x");
        }
    }
    vf::count_case(vf::hash_bytes(msg, n, misalign), n >= 1);
}

// ---------------------------------------------------------------- suites
// (a) all byte strings of length <= L over a 6-symbol alphabet (sign bit, 0xFB -> '+', '/' , '-' '_' classes)
static const uint8_t ALPHA[6] = {0x00, 0x7F, 0x80, 0xFF, 'a', 0xFB};
static int enum_maxlen() { return vf::thorough() ? 5 : 4; }
static uint64_t enum_total()
{
    uint64_t t = 0, p = 1;
    for (int l = 0; l <= enum_maxlen(); l++, p *= 6)
        t += p;
    return t;
}
static const uint64_t ENUM_BATCH = 16;
static uint64_t enum_count() { return (enum_total() + ENUM_BATCH - 1) / ENUM_BATCH; }
static void enum_run(uint64_t c)
{
    for (uint64_t k = c * ENUM_BATCH; k < (c + 1) * ENUM_BATCH && k < enum_total(); k++)
    {
        uint64_t idx = k, p = 1;
        int len = 0;
        while (idx >= p)
        {
            idx -= p;
            p *= 6;
            len++;
        }
        uint8_t m[8];
        for (int i = 0; i < len; i++, idx /= 6)
            m[i] = ALPHA[idx % 6];
        check_bytes(m, len, (unsigned)(k % 4));
        if (len == 4 && vf::want_sample())
            vf::sample("enum: bytes=%s -> hex, base64, base64url, both placements", vf::hex(m, len).c_str());
    }
}
VF_SUITE(shortstrings, enum_count, enum_run)

// (b) random byte strings up to 300 bytes
static const uint64_t RAND_BATCH = 50;
static uint64_t rand_count() { return (vf::thorough() ? 5000000ull : 100000ull) / RAND_BATCH; }
static void rand_run(uint64_t c)
{
    vf::Rng r(vf::seed(), 0xC18, c);
    for (uint64_t k = 0; k < RAND_BATCH; k++)
    {
        size_t len = r.chance(1, 2) ? r.below(13) : r.chance(3, 4) ? r.below(64) : r.below(301);
        uint8_t m[300];
        int mode = r.below(5);
        for (size_t i = 0; i < len; i++)
            m[i] = mode == 0 ? (uint8_t)r.next() : mode == 1 ? ALPHA[r.below(6)] : mode == 2 ? (uint8_t)(0xF8 | r.below(8))
                 : mode == 3 ? (uint8_t)(r.below(4) << 6 | 0x3E | r.below(2)) : (uint8_t)(r.chance(1, 6) ? r.next() : 0xFF);
        check_bytes(m, len, (unsigned)r.below(8));
        if (len > 12 && vf::want_sample())
            vf::sample("random: len=%zu bytes=%s", len, vf::hex(m, len, 24).c_str());
    }
}
VF_SUITE(randstrings, rand_count, rand_run)

// (c) nibble/byte helpers and fixed-width helpers
template <class T> static T biased(vf::Rng &r)
{
    const int W = sizeof(T) * 8;
    uint64_t v;
    switch (r.below(6))
    {
    case 0: v = r.next(); break;
    case 1: v = (1ull << r.below(W)) + (uint64_t)r.range(-2, 2); break;
    case 2: v = ~((1ull << r.below(W)) + (uint64_t)r.range(-2, 2)); break;
    case 3: { v = 0; for (int i = 0; i < (int)sizeof(T); i++) v = v << 8 | (r.chance(1, 2) ? (r.chance(1, 2) ? 0xFF : 0x00) : (r.chance(1, 2) ? 0xA0 | r.below(16) : r.below(256))); break; }
    case 4: { v = 0; for (int i = 0; i < W / 4; i++) v = v << 4 | (9 + r.below(3)); break; } // around the digit/letter seam 9,A,B
    default: v = r.next() >> r.below(W); break;
    }
    return (T)v;
}
template <class T, class ENC, class DEC> static void fixed_one(T v, const char *name, ENC enc, DEC dec, unsigned mis)
{
    const int D = sizeof(T) * 2;
    char key[96];
    vf::cls(name);
    if (vf::verbose())
        printf("  %s value=%llx\n", name, (unsigned long long)v);
    std::string ref = ref_hex_value((uint64_t)v, D);
    for (int mirror = 0; mirror < 2; mirror++)
    {
        vf::Exact out(nullptr, D, mis, mirror); // exactly D characters, no terminator
        enc(out.c(), v);
        if (memcmp(out.p, ref.data(), D) != 0)
        {
            snprintf(key, sizeof key, "%s_to_hex:!=reference", name);
            vf::fail(key, "value=%llx got=%s ref=%s", (unsigned long long)v, vf::esc(out.p, D).c_str(), ref.c_str());
        }
        vf::Exact in(ref.data(), D, mis, mirror);
        T back = dec(in.cc());
        if (back != v)
        {
            snprintf(key, sizeof key, "hex_to_%s:roundtrip", name);
            vf::fail(key, "value=%llx text=%s decoded=%llx", (unsigned long long)v, ref.c_str(), (unsigned long long)back);
        }
    }
}
static void fixed8(uint8_t v, unsigned m)
{
    fixed_one<uint8_t>(v, "uint8", [](char *h, uint8_t x) { uint8_to_hex(h, x); }, [](const char *h) { return hex_to_uint8(h); }, m);
    VF_OK("uint8_to_hex == reference and hex_to_uint8 inverts it");
}
static void fixed16(uint16_t v, unsigned m)
{
    fixed_one<uint16_t>(v, "uint16", [](char *h, uint16_t x) { uint16_to_hex(h, x); }, [](const char *h) { return hex_to_uint16(h); }, m);
    VF_OK("uint16_to_hex == reference and hex_to_uint16 inverts it");
}
static void fixed32(uint32_t v, unsigned m)
{
    fixed_one<uint32_t>(v, "uint32", [](char *h, uint32_t x) { uint32_to_hex(h, x); }, [](const char *h) { return hex_to_uint32(h); }, m);
    VF_OK("uint32_to_hex == reference and hex_to_uint32 inverts it");
}
static void fixed64(uint64_t v, unsigned m)
{
    fixed_one<uint64_t>(v, "uint64", [](char *h, uint64_t x) { uint64_to_hex(h, x); }, [](const char *h) { return hex_to_uint64(h); }, m);
    VF_OK("uint64_to_hex == reference and hex_to_uint64 inverts it");
}

// all 8- and 16-bit values: case c covers 16-bit values [c*256, c*256+255]; case 0 also the nibble helpers
static uint64_t small_count() { return 256; }
static void small_run(uint64_t c)
{
    if (c == 0)
    {
        vf::cls("half2hex/hex2half");
        for (unsigned n = 0; n < 16; n++)
        {
            char h = half2hex((uint8_t)n);
            if (h != HEXU[n])
                vf::fail("half2hex:!=reference", "n=%u got '%c'", n, h);
            if (hex2half(h) != n)
                vf::fail("hex2half:roundtrip", "n=%u text '%c' -> %u", n, h, hex2half(h));
        }
        for (unsigned b = 0; b < 256; b++)
            if (hex2byte(HEXU[b / 16], HEXU[b % 16]) != b)
                vf::fail("hex2byte:!=reference", "byte=%02x got %02x", b, hex2byte(HEXU[b / 16], HEXU[b % 16]));
        VF_OK("half2hex upper-case, hex2half/hex2byte invert it (all nibbles, all bytes)");
        vf::sample("fixed-width: all 256 uint8, all 65536 uint16 values, both buffer placements");
    }
    fixed8((uint8_t)c, (unsigned)(c % 4));
    for (unsigned lo = 0; lo < 256; lo++)
        fixed16((uint16_t)(c * 256 + lo), lo % 4);
    vf::count_bulk(257, 257);
}
VF_SUITE(small_values, small_count, small_run)

static const uint64_t WIDE_BATCH = 500;
static uint64_t wide_count() { return (vf::thorough() ? 4000000ull : 200000ull) / WIDE_BATCH; }
static void wide_run(uint64_t c)
{
    vf::Rng r(vf::seed(), 0xC18F, c);
    for (uint64_t k = 0; k < WIDE_BATCH; k++)
    {
        uint32_t a = biased<uint32_t>(r);
        uint64_t b = biased<uint64_t>(r);
        unsigned m = (unsigned)r.below(8);
        fixed32(a, m);
        fixed64(b, m);
        vf::count_case(vf::mix(a, 32), a != 0);
        vf::count_case(vf::mix(b, 64), b != 0);
        if (k == 0 && vf::want_sample())
            vf::sample("wide: uint32=%08x uint64=%016llx", a, (unsigned long long)b);
    }
}
VF_SUITE(wide_values, wide_count, wide_run)

extern "C" void vf_setup()
{
    for (const char *c : {"hexascii_encode == upper-case hex reference, 2n chars", "hexascii_decode(hexascii_encode(x)) == x",
                          "igris::hexascii_encode overloads == reference, size 2n", "base64 length == 4*ceil(n/3)",
                          "base64 output within the documented alphabet", "base64 encode == RFC 4648 reference",
                          "base64 encode(std::string) == reference", "base64_decode(base64_encode(x)) == x",
                          "base64url_decode(base64url_encode(x)) == x",
                          "half2hex upper-case, hex2half/hex2byte invert it (all nibbles, all bytes)",
                          "uint8_to_hex == reference and hex_to_uint8 inverts it", "uint16_to_hex == reference and hex_to_uint16 inverts it",
                          "uint32_to_hex == reference and hex_to_uint32 inverts it", "uint64_to_hex == reference and hex_to_uint64 inverts it"})
        vf::require(c);
}
