// C18 (TSan unit): the codecs are pure functions of their arguments and are called from several threads / from an
// ISR without a lock. Each case runs in a FRESH process (vf::mt_run): 2..4 threads are released together, every thread
// works through every codec entry point on its own inputs, in a rotated order and with std / url-safe variants mixed
// across the threads, and compares with references computed BEFORE the threads start. A wrong value is reported from
// the mismatch mask, an unsynchronised access inside igris by ThreadSanitizer.
#define VF_MAIN
#include "vf.h"
#include "mt.h"
#include <igris/buffer.h>
#include <igris/string/hexascii_string.h>
#include <igris/util/base64.h>
#include <igris/util/hexascii.h>
#include "c18_refs.h"

enum { G_B64 = 1, G_B64URL = 2, G_B64DEC = 4, G_HEXC = 8, G_HEXCXX = 16, G_FIXED = 32 };
static const char *GNAME[6] = {"base64_encode", "base64url_encode", "base64_decode/base64url_decode", "hexascii_encode/decode(C)",
                               "igris::hexascii_encode", "uintN_to_hex/hex_to_uintN"};
struct Plan
{
    std::vector<uint8_t> msg[3];
    std::string b64[3], url[3], hex[3];
    uint64_t val[3];
    std::string fx[3][4];
    int order, rounds;
    bool url_first;
};

static unsigned work(const Plan &p)
{
    unsigned bad = 0;
    for (int round = 0; round < p.rounds; round++)
        for (int k = 0; k < 6; k++)
        {
            int which = (k + p.order) % 6;
            for (int m = 0; m < 3; m++)
            {
                const uint8_t *d = p.msg[m].data();
                size_t n = p.msg[m].size();
                std::string raw((const char *)d, n);
                switch (which)
                {
                case 0:
                    if (igris::base64_encode(d, n) != p.b64[m] || igris::base64_encode(raw) != p.b64[m])
                        bad |= G_B64;
                    break;
                case 1:
                    if (igris::base64url_encode(d, n) != p.url[m] || igris::base64url_encode(raw) != p.url[m])
                        bad |= G_B64URL;
                    break;
                case 2:
                    if (igris::base64_decode(p.b64[m]) != raw || igris::base64url_decode(p.url[m]) != raw)
                        bad |= G_B64DEC;
                    break;
                case 3:
                {
                    std::string out(2 * n, '?'), back(n, '?');
                    hexascii_encode(d, (int)n, &out[0]);
                    hexascii_decode(p.hex[m].data(), (int)(2 * n), &back[0]);
                    if (out != p.hex[m] || back != raw)
                        bad |= G_HEXC;
                    break;
                }
                case 4:
                    if (igris::hexascii_encode(d, n) != p.hex[m] || igris::hexascii_encode(raw) != p.hex[m] ||
                        igris::hexascii_encode(igris::buffer((const void *)d, n)) != p.hex[m])
                        bad |= G_HEXCXX;
                    break;
                default:
                {
                    char h[17];
                    uint64_t v = p.val[m];
                    memset(h, 0, sizeof h);
                    uint8_to_hex(h, (uint8_t)v);
                    if (p.fx[m][0] != h || hex_to_uint8(p.fx[m][0].c_str()) != (uint8_t)v)
                        bad |= G_FIXED;
                    memset(h, 0, sizeof h);
                    uint16_to_hex(h, (uint16_t)v);
                    if (p.fx[m][1] != h || hex_to_uint16(p.fx[m][1].c_str()) != (uint16_t)v)
                        bad |= G_FIXED;
                    memset(h, 0, sizeof h);
                    uint32_to_hex(h, (uint32_t)v);
                    if (p.fx[m][2] != h || hex_to_uint32(p.fx[m][2].c_str()) != (uint32_t)v)
                        bad |= G_FIXED;
                    memset(h, 0, sizeof h);
                    uint64_to_hex(h, v);
                    if (p.fx[m][3] != h || hex_to_uint64(p.fx[m][3].c_str()) != v)
                        bad |= G_FIXED;
                    break;
                }
                }
            }
        }
    return bad;
}

static uint64_t mt_count() { return vf::thorough() ? 3000 : 160; }
static void mt_case(uint64_t idx)
{
    vf::Rng r(vf::seed(), 0xC18E, idx);
    int nthreads = r.range(2, 4);
    Plan plan[4];
    for (int t = 0; t < nthreads; t++)
    {
        Plan &p = plan[t];
        for (int m = 0; m < 3; m++)
        {
            size_t n = m == 0 ? 30 + r.below(270) : r.below(40);
            p.msg[m].resize(n);
            int mode = (int)r.below(3);
            for (auto &b : p.msg[m]) // many bytes that map to '+', '/', '-', '_'
                b = mode == 0 ? (uint8_t)r.next() : mode == 1 ? (uint8_t)(0xF8 | r.below(8)) : (uint8_t)(r.below(4) << 6 | 0x3E | r.below(2));
            p.b64[m] = ref_b64(p.msg[m].data(), n, false);
            p.url[m] = ref_b64(p.msg[m].data(), n, true);
            p.hex[m] = ref_hex(p.msg[m].data(), n);
            p.val[m] = r.next();
            for (int w = 0; w < 4; w++)
                p.fx[m][w] = ref_hex_value(w == 3 ? p.val[m] : p.val[m] & ((1ull << (8 << w)) - 1), 2 << w);
        }
        // thread 0 starts with the standard encoder, thread 1 with the url-safe one, the others anywhere
        p.order = t == 0 ? 0 : t == 1 ? 1 : (int)r.below(6);
        p.rounds = 20 + (int)r.below(40);
    }
    vf::cls("concurrent");
    if (vf::verbose())
        printf("  fresh process, %d threads, every codec entry point per thread, rotated order\n", nthreads);
    int mask = vf::mt_run(nthreads, [&](int tid) -> unsigned { return work(plan[tid]); });
    if (mask < 0)
        vf::fail(mask == -2 ? "concurrent:hang" : "concurrent:child-died", "mt_run returned %d with %d threads", mask, nthreads);
    for (int b = 0; b < 6; b++)
        if (mask & (1 << b))
        {
            char key[120];
            snprintf(key, sizeof key, "concurrent:%s:!=reference", GNAME[b]);
            vf::fail(key, "%d threads in a fresh process: %s disagreed with the reference while other codecs ran in parallel (mask %#x)", nthreads,
                     GNAME[b], mask);
        }
    VF_OK("every codec entry point called concurrently from 2..4 threads in a fresh process == reference (TSan watching)");
    vf::count_case(vf::mix(idx, vf::seed()), true);
    if (vf::want_sample())
        vf::sample("concurrent: fresh process, %d threads x %d..%d rounds over all codec entry points, std and url-safe mixed", nthreads, 20, 59);
}
VF_SUITE(concurrent, mt_count, mt_case)

extern "C" void vf_setup()
{
    vf::require("every codec entry point called concurrently from 2..4 threads in a fresh process == reference (TSan watching)");
}
