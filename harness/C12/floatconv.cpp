// C12 — float <-> text: igris_f32toa / f64toa / ftoa (render), igris_atof32 / atof64 / igris_strtod and the compat
// strtod / atof (parse).  Oracles: shape + value-within-tolerance of the rendered text (own decimal reader, glibc strtod
// as a cross-check on a sample), glibc strtod on the grammar prefix for the parsers; pattern-filled exact output block.
#define VF_MAIN
#include "vf.h"
#include "guard.h"
#include <igris/util/numconvert.h>
#include <cfloat>
#include <cmath>
#include <string>
#include <vector>
#include "early_fork.h"
// REDUCED: second build with -funsigned-char runs a fraction of the workload
#ifdef C12_REDUCED
static const uint64_t REDUCE = 8;
#else
static const uint64_t REDUCE = 1;
#endif

extern "C"
{
    double igc_strtod(const char *nptr, char **endptr);
    double igc_atof(const char *nptr);
}

// ---------------------------------------------------------------- helpers
static inline float f32_of(uint32_t b)
{
    float f;
    memcpy(&f, &b, 4);
    return f;
}
static inline double f64_of(uint64_t b)
{
    double d;
    memcpy(&d, &b, 8);
    return d;
}
static inline uint32_t bits_of(float f)
{
    uint32_t b;
    memcpy(&b, &f, 4);
    return b;
}
// spacing of binary32 / binary64 numbers at magnitude y (y >= 0, finite)
static double ulp32(double y)
{
    if (y < 0x1p-126)
        return 0x1p-149;
    int e;
    frexp(y, &e); // y = m * 2^e, m in [0.5,1)
    return ldexp(1.0, e - 24);
}
static double ulp64(double y)
{
    if (y < 0x1p-1022)
        return 0x1p-1074;
    int e;
    frexp(y, &e);
    return ldexp(1.0, e - 53);
}
static inline double to_f32(double d) // the binary32 value nearest to d, without an out-of-range cast
{
    if (std::isnan(d) || std::isinf(d))
        return d;
    if (fabs(d) >= 0x1.ffffffp127)
        return d < 0 ? -INFINITY : INFINITY;
    return (double)(float)d;
}
static const long double P10[20] = {1e0L, 1e1L, 1e2L, 1e3L, 1e4L, 1e5L, 1e6L, 1e7L, 1e8L, 1e9L,
                                    1e10L, 1e11L, 1e12L, 1e13L, 1e14L, 1e15L, 1e16L, 1e17L, 1e18L, 1e19L};

// ---------------------------------------------------------------- render side
enum { WIN = 64 };
struct OutBuf
{
    char *p;
    char pat[WIN];
    int dirty;
    OutBuf() : dirty(WIN)
    {
        p = (char *)malloc(WIN); // red zones directly in front of and behind the 64 bytes
        for (int i = 0; i < WIN; i++)
            pat[i] = (char)(0xA5 ^ (i * 29 + 3)) ? (char)(0xA5 ^ (i * 29 + 3)) : (char)0x77; // never NUL
    }
    void arm()
    {
        memcpy(p, pat, dirty);
        dirty = 0;
    }
};
static OutBuf &outbuf()
{
    static OutBuf o;
    return o;
}

static const char *mag_class(double ax) { return ax < 2147483648.0 ? "abs<2^31" : "abs>=2^31"; }

// judge one rendered text. x = the argument as a double (exact), prec = requested precision.
// Returns nothing; fails on violation. `kind` = routine name.
static void judge_render(const char *kind, double x, bool arg_is_f32, int prec, char *buf, char *ret)
{
    OutBuf &o = outbuf();
    char key[128];
    int len = 0;
    while (len < WIN && buf[len])
        len++;
    o.dirty = WIN;
    double ax = fabs(x);
    if (len == WIN)
    {
        snprintf(key, sizeof key, "render:%s:unterminated", kind);
        vf::fail(key, "x=%a prec=%d no NUL within %d bytes: %s", x, prec, WIN, vf::esc(buf, WIN).c_str());
    }
    if (memcmp(buf + len + 1, o.pat + len + 1, WIN - len - 1) != 0)
    {
        snprintf(key, sizeof key, "render:%s:write-behind-text", kind);
        vf::fail(key, "x=%a (%.9g) prec=%d text=\"%s\" but bytes behind the terminator were modified", x, x, prec, vf::esc(buf, len).c_str());
    }
    o.dirty = len + 1;
    if (!std::isfinite(x))
    {
        const char *t = buf;
        bool neg = false, plus = false;
        if (*t == '-')
            neg = true, t++;
        else if (*t == '+')
            plus = true, t++;
        bool ok;
        if (std::isnan(x))
            ok = strcasecmp(t, "nan") == 0;
        else
            ok = strcasecmp(t, "inf") == 0 && (x < 0 ? neg : !neg);
        (void)plus;
        if (!ok)
        {
            snprintf(key, sizeof key, "render:%s:nonfinite-token", kind);
            vf::fail(key, "x=%a prec=%d text=\"%s\"", x, prec, vf::esc(buf, len).c_str());
        }
        if (ret != buf)
        {
            snprintf(key, sizeof key, "render:%s:returned-pointer:%s", kind, std::isnan(x) ? "nan" : "inf");
            vf::fail(key, "x=%a prec=%d text at buf=\"%s\", returned buf%+ld (\"%s\")", x, prec, vf::esc(buf, len).c_str(), (long)(ret - buf),
                     ret >= buf && ret < buf + WIN ? ret : "?");
        }
        VF_OK("render: inf/nan -> token with the right sign, returned pointer == buf");
        return;
    }
    // ---- finite: shape  -?D+(.D{P})?
    const char *t = buf;
    if (*t == '-')
        t++;
    int nint = 0, nfrac = 0;
    bool dot = false, bad = false;
    // integer part value (exact while it fits), fraction as an integer
    long double ip = 0;
    uint64_t fr = 0;
    for (; *t; t++)
    {
        if (*t >= '0' && *t <= '9')
        {
            if (!dot)
                ip = ip * 10 + (*t - '0'), nint++;
            else
            {
                if (nfrac < 19)
                    fr = fr * 10 + (unsigned)(*t - '0');
                nfrac++;
            }
        }
        else if (*t == '.' && !dot)
            dot = true;
        else
            bad = true;
    }
    if (bad)
    {
        snprintf(key, sizeof key, "render:%s:non-numeric:%s", kind, mag_class(ax));
        vf::fail(key, "x=%a (%.9g) prec=%d text=\"%s\"", x, x, prec, vf::esc(buf, len).c_str());
    }
    VF_OK("render: only [-0-9.] characters, NUL inside the block, nothing written behind the text");
    bool shape_ok = nint >= 1 && (dot ? nfrac >= 1 : nfrac == 0);
    if (prec >= 0 && prec <= 10)
        shape_ok = shape_ok && nfrac == prec;
    else if (prec > 10)
        shape_ok = shape_ok && (nfrac == 10 || nfrac == prec); // precisions above the documented 0..10: clamped or honoured
    else
        shape_ok = shape_ok && nfrac <= 10;
    if (!shape_ok)
    {
        snprintf(key, sizeof key, "render:%s:shape:%s", kind, prec < 0 ? "auto" : prec == 0 ? "P=0" : prec <= 10 ? "P=1..10" : "P>10");
        vf::fail(key, "x=%a (%.9g) prec=%d text=\"%s\" (%d integer digits, %d fraction digits)", x, x, prec, vf::esc(buf, len).c_str(), nint, nfrac);
    }
    VF_OK("render: shape -?digits[.digits] with exactly the requested number of fraction digits");
    if (ret != buf)
    {
        snprintf(key, sizeof key, "render:%s:returned-pointer", kind);
        vf::fail(key, "x=%a prec=%d returned buf%+ld", x, prec, (long)(ret - buf));
    }
    // ---- value
    long double v = ip + (nfrac ? (long double)fr / P10[nfrac < 19 ? nfrac : 19] : 0.0L);
    if (buf[0] == '-')
        v = -v;
    long double err = fabsl(v - (long double)x);
    double unit = (double)(1.0L / P10[nfrac < 19 ? nfrac : 19]);
    double u32 = ulp32(ax > 1 ? ax : 1.0);
    double tol = unit + 4 * u32;
    const char *m3 = ax < 2147483648.0 ? "abs<2^31" : ax < 18446744073709551616.0 ? "2^31<=abs<2^64" : "abs>=2^64";
    if (err > tol)
    {
        snprintf(key, sizeof key, "render:%s:value:%s:%s", kind, prec < 0 ? "auto" : prec == 0 ? "P=0" : "P>0", m3);
        vf::fail(key, "x=%a (%.17g) prec=%d text=\"%s\" error=%.6Lg tolerance=%.6g (10^-%d + 4*ulp32=%.3g) error/ulp32=%.2Lf", x, x, prec,
                 vf::esc(buf, len).c_str(), err, tol, nfrac, u32, err / (long double)u32);
    }
    // largest observed error, as a fraction of the tolerance and (beyond one unit of the last digit) in binary32 ulps
    if (ax < 2147483648.0)
    {
        VF_OK("render: |text - x| <= 10^-P + 4 ulp32(max(|x|,1)) for |x| < 2^31");
        if (nfrac == 0) // P = 0 truncates by design of the statement's bound ("one unit of the last printed digit")
            VF_MAX("render: max error / tolerance at 0 fraction digits, ppm", (uint64_t)(err / tol * 1e6L));
        else
            VF_MAX("render: max error / tolerance at >= 1 fraction digits, ppm", (uint64_t)(err / tol * 1e6L));
        if (err > unit)
            VF_MAX("render: max error beyond 10^-P, milli-ulp32", (uint64_t)((err - unit) / u32 * 1e3L));
    }
    else if (ax < 18446744073709551616.0)
    {
        VF_OK("render: |text - x| <= 10^-P + 4 ulp32(|x|) for 2^31 <= |x| < 2^64");
        VF_MAX("render: 2^31 <= |x| < 2^64 max error / tolerance, ppm", (uint64_t)(err / tol * 1e6L));
    }
    else
    {
        VF_OK("render: |text - x| <= 10^-P + 4 ulp32(|x|) for |x| >= 2^64");
        VF_MAX("render: |x| >= 2^64 max error / tolerance, ppm", (uint64_t)(err / tol * 1e6L));
        VF_MAX("render: |x| >= 2^64 max error, milli-ulp32", (uint64_t)(err / u32 * 1e3L));
    }
    (void)arg_is_f32;
}

enum Renderer { R_F32, R_F64, R_FTOA };
static const char *RNAME[3] = {"igris_f32toa", "igris_f64toa", "igris_ftoa"};
static void render_f32(float f, int prec, bool crosscheck)
{
    OutBuf &o = outbuf();
    o.arm();
    vf::cls("igris_f32toa");
    if (vf::verbose())
        printf("  igris_f32toa(%a = %.9g [0x%08x], prec=%d)\n", (double)f, (double)f, bits_of(f), prec);
    char *r = igris_f32toa(f, o.p, (int8_t)prec);
    judge_render("igris_f32toa", (double)f, true, prec, o.p, r);
    if (crosscheck && std::isfinite(f))
    {
        // second opinion on the harness' own decimal reader: glibc strtod of the same text
        double g = strtod(o.p, nullptr);
        int nfrac = 0;
        const char *d = strchr(o.p, '.');
        if (d)
            nfrac = (int)strlen(d + 1);
        double tol = pow(10.0, -nfrac) + 4 * ulp32(fabs((double)f) > 1 ? fabs((double)f) : 1.0);
        if (fabs(g - (double)f) > tol * (1 + 1e-9))
            vf::fail("harness:reader-disagrees-with-strtod", "x=%a text=\"%s\" strtod=%.17g", (double)f, o.p, g);
        VF_OK("render: glibc strtod(text) agrees with the harness' reader (sample)");
    }
}
static void render_f64(Renderer which, double x, int prec)
{
    OutBuf &o = outbuf();
    o.arm();
    vf::cls(RNAME[which]);
    if (vf::verbose())
        printf("  %s(%a = %.17g, prec=%d)\n", RNAME[which], x, x, prec);
    char *r = which == R_F64 ? igris_f64toa(x, o.p, (int8_t)prec) : igris_ftoa(x, o.p, (int8_t)prec);
    // a double beyond the binary32 range becomes inf in the float renderer the routine delegates to: judged as such
    double seen = x;
    if (std::isfinite(x) && fabs(x) > (double)FLT_MAX)
    {
        if (fabs(x) >= 0x1.ffffffp127) // rounds to infinity in binary32
            seen = x < 0 ? -INFINITY : INFINITY;
    }
    judge_render(RNAME[which], seen, false, prec, o.p, r);
}

// boundary-biased binary32 patterns
static uint32_t biased32(vf::Rng &r)
{
    switch (r.below(10))
    {
    case 0: return (uint32_t)r.next();
    case 1: { // exponents around 1.0 .. 2^40
        uint32_t e = 127 - 30 + (uint32_t)r.below(72);
        return (uint32_t)(r.below(2) << 31) | e << 23 | ((uint32_t)r.next() & 0x7fffff);
    }
    case 2: { // k / 10^p +- few ulps: rounding carries (0.9995, 9.99995, 0.05 ...)
        static const double K[] = {0.5, 0.05, 0.005, 0.0005, 0.95, 0.995, 0.9995, 0.99995, 0.999995, 9.5, 9.95, 9.995, 99.5, 99.95, 999.5, 0.1, 0.01, 0.001, 1e-4, 1e-5, 1e-6, 1e-7, 1e-10, 1e-11, 0.15, 0.25, 0.35, 0.45, 1.5, 2.5};
        double v = r.pick(K) * (r.chance(1, 3) ? (double)(1 + r.below(9)) : 1.0) + (r.chance(1, 2) ? (double)r.below(1000) : 0.0);
        uint32_t b = bits_of((float)v) + (uint32_t)r.range(-3, 3);
        return b | (uint32_t)(r.below(2) << 31);
    }
    case 3: { // integers and half-integers +- ulps
        double v = (double)(r.next() >> (r.below(40) + 24)) + (r.chance(1, 2) ? 0.5 : 0.0);
        return (bits_of((float)v) + (uint32_t)r.range(-2, 2)) | (uint32_t)(r.below(2) << 31);
    }
    case 4: { // powers of two and ten +- ulps, incl. 2^24, 2^31, 2^32, 2^63, 2^64
        static const double K[] = {0x1p23, 0x1p24, 0x1p30, 0x1p31, 0x1p32, 0x1p62, 0x1p63, 0x1p64, 0x1p65, 1e9, 1e10, 2147483647.0, 4294967295.0, 1e19, 1.8446744e19, 1e20, 1e38, 3.4e38};
        double v = r.chance(1, 2) ? r.pick(K) : r.chance(1, 2) ? ldexp(1.0, r.range(-149, 127)) : pow(10.0, r.range(-45, 38));
        return (bits_of((float)v) + (uint32_t)r.range(-3, 3)) | (uint32_t)(r.below(2) << 31);
    }
    case 5: { // denormals and the smallest normals
        return (uint32_t)(r.below(2) << 31) | ((uint32_t)r.next() & (r.chance(1, 2) ? 0x7fffff : 0xffffff));
    }
    case 6: { // specials
        static const uint32_t S[] = {0x00000000, 0x80000000, 0x7f800000, 0xff800000, 0x7fc00000, 0xffc00000, 0x7f800001, 0xff800001, 0x7fffffff, 0xffffffff, 0x7f7fffff, 0xff7fffff, 0x00000001, 0x80000001, 0x3f800000, 0xbf800000, 0x4f000000, 0xcf000000, 0x4effffff, 0xceffffff};
        return r.pick(S);
    }
    case 7: { // |x| in [1, 2^31): the whole supported range, uniform over exponents
        uint32_t e = 127 + (uint32_t)r.below(31);
        return (uint32_t)(r.below(2) << 31) | e << 23 | ((uint32_t)r.next() & 0x7fffff);
    }
    case 8: { // fractions: exponent -1 .. -40
        uint32_t e = 127 - 1 - (uint32_t)r.below(40);
        return (uint32_t)(r.below(2) << 31) | e << 23 | ((uint32_t)r.next() & 0x7fffff);
    }
    default: { // short decimals d.ddd
        double v = (double)r.below(100000) / pow(10.0, (double)r.below(7));
        return bits_of((float)v) | (uint32_t)(r.below(2) << 31);
    }
    }
}
static double biased64(vf::Rng &r)
{
    switch (r.below(6))
    {
    case 0: return f64_of(r.next());
    case 1: return (double)f32_of(biased32(r));
    case 2: { // a binary32 value plus/minus a sub-ulp32 perturbation (double rounding into the float renderer)
        double v = (double)f32_of(biased32(r));
        uint64_t b;
        memcpy(&b, &v, 8);
        b += (uint64_t)(int64_t)r.range(-4, 4) << r.below(30);
        return f64_of(b);
    }
    case 3: { // |x| in [2^-40, 2^31)
        uint64_t e = 1023 - 40 + r.below(71);
        return f64_of(r.below(2) << 63 | e << 52 | (r.next() & 0xfffffffffffffull));
    }
    case 4: { // around 2^31, FLT_MAX, the float overflow threshold, DBL_MAX, denormals
        static const double K[] = {2147483647.5, 2147483647.99, 2147483648.0, 2147483520.0, 4294967296.0, (double)FLT_MAX, 0x1.ffffffp127, 0x1.fffffefp127, 1e39, 1e100, DBL_MAX, DBL_MIN, 0x1p-1074, 0x1p-149, 0x1p-150, 1e-46, 0.0};
        double v = r.pick(K);
        uint64_t b;
        memcpy(&b, &v, 8);
        b += (uint64_t)(int64_t)r.range(-2, 2);
        return r.chance(1, 2) ? f64_of(b) : -f64_of(b);
    }
    default: { // short decimals
        double v = (double)r.below(10000000) / pow(10.0, (double)r.below(9));
        return r.chance(1, 2) ? v : -v;
    }
    }
}

// (a) seeded boundary-biased binary32 patterns x every precision -1..12
static const uint64_t RB = 500;
static uint64_t rf32_count() { return (vf::thorough() ? 4000000ull : 400000ull) / RB / REDUCE; }
static void rf32_run(uint64_t c)
{
    vf::Rng r(vf::seed(), 0xC12F32, c);
    for (uint64_t k = 0; k < RB; k++)
    {
        uint32_t b = biased32(r);
        float f = f32_of(b);
        for (int p = -1; p <= 12; p++)
            render_f32(f, p, (k & 7) == 0);
        // also odd negative precisions: "automatic"
        render_f32(f, -1 - (int)r.below(100), false);
        vf::count_case(vf::mix(b, 32), (b << 1) != 0);
        if (k == 0 && vf::want_sample())
            vf::sample("f32 render: pattern=0x%08x (%.9g) precisions -1..12", b, (double)f);
    }
}
VF_SUITE(render_f32_biased, rf32_count, rf32_run)

// (b) doubles through igris_f64toa and igris_ftoa
static uint64_t rf64_count() { return (vf::thorough() ? 24000000ull : 1000000ull) / RB / REDUCE; }
static void rf64_run(uint64_t c)
{
    vf::Rng r(vf::seed(), 0xC12F64, c);
    for (uint64_t k = 0; k < RB; k++)
    {
        double x = biased64(r);
        int p = r.chance(1, 8) ? -1 - (int)r.below(3) : r.range(-1, 12);
        render_f64(R_F64, x, p);
        render_f64(R_FTOA, x, r.range(-1, 12));
        uint64_t b;
        memcpy(&b, &x, 8);
        vf::count_case(vf::mix(b, 64 + p), (b << 1) != 0);
        if (k == 0 && vf::want_sample())
            vf::sample("f64 render: x=%a (%.17g) prec=%d", x, x, p);
    }
}
VF_SUITE(render_f64_biased, rf64_count, rf64_run)

// (c) the binary32 sweep: thorough = all 2^32 patterns x {-1, 0, 3, 10} and every 16th pattern block x the other precisions;
//     quick = 64 blocks of 2^16 patterns spread over the exponent range
static const int SWEEP_P[4] = {-1, 0, 3, 10};
static const int OTHER_P[10] = {1, 2, 4, 5, 6, 7, 8, 9, 11, 12};
static uint64_t sweep_count() { return vf::thorough() && REDUCE == 1 ? 65536 : 64 / REDUCE; }
static void sweep_run(uint64_t c)
{
    bool full = vf::thorough() && REDUCE == 1;
    uint32_t hi = full ? (uint32_t)c : (uint32_t)((c * 1024 * REDUCE + (vf::seed() * 37 + c * 13) % 1024) & 0xffff);
    bool others = full ? (c % 16 == (vf::seed() & 15)) : (c % 4 == 0);
    OutBuf &o = outbuf();
    for (uint32_t lo = 0; lo < 65536; lo++)
    {
        uint32_t b = hi << 16 | lo;
        float f = f32_of(b);
        for (int i = 0; i < 4; i++)
        {
            o.arm();
            vf::cls("igris_f32toa");
            char *r = igris_f32toa(f, o.p, (int8_t)SWEEP_P[i]);
            judge_render("igris_f32toa", (double)f, true, SWEEP_P[i], o.p, r);
        }
        if (others)
            for (int i = 0; i < 10; i++)
            {
                o.arm();
                char *r = igris_f32toa(f, o.p, (int8_t)OTHER_P[i]);
                judge_render("igris_f32toa", (double)f, true, OTHER_P[i], o.p, r);
            }
    }
    VF_OKN("sweep: 2^16 consecutive binary32 patterns x precisions {-1,0,3,10}", 65536);
    vf::count_bulk(65536ull * (others ? 14 : 4), 65536ull * (others ? 14 : 4));
    if (c == 0)
        vf::sample("sweep: patterns 0x%04x0000..0x%04xffff x precisions {-1,0,3,10}%s", hi, hi, others ? " + the other ten" : "");
}
VF_SUITE(render_f32_sweep, sweep_count, sweep_run)

// (c2) deterministic: every power of two 2^e (e = -149..127) with its +-1 and +-2 ulp neighbours, both signs, every precision
//      -1..12 through igris_f32toa; the same values widened, their double-precision neighbours and the doubles just on either
//      side of the rounding midpoints to the next floats through igris_f64toa / igris_ftoa. Extra cases: neighbours of
//      2^64 * 10^k (where the renderer switches to "leading digits + zeros"), 2^24, 2^53, FLT_MAX, the binary32 overflow threshold.
static const int N_POW2 = 127 + 149 + 1;
static uint64_t pow2_count() { return N_POW2 + 20 + 1; }
static void pow2_float(uint32_t centre)
{
    for (int d = -2; d <= 2; d++)
    {
        uint32_t b = centre + (uint32_t)d;
        if ((b & 0x7f800000u) == 0x7f800000u)
            continue; // stepped beyond FLT_MAX
        for (int sgn = 0; sgn < 2; sgn++)
        {
            float f = f32_of(b | (uint32_t)sgn << 31);
            double w = (double)f;
            // doubles that the float renderer sees as f (or as a direct neighbour of f)
            double up = (double)f32_of(b + 1 <= 0x7f7fffffu ? b + 1 : b), dn = (double)f32_of(b ? b - 1 : b);
            if (sgn)
                up = -up, dn = -dn;
            double dd[7] = {w, nextafter(w, INFINITY), nextafter(w, -INFINITY), nextafter((w + up) / 2, w), nextafter((w + up) / 2, up),
                            nextafter((w + dn) / 2, w), nextafter((w + dn) / 2, dn)};
            for (int p = -1; p <= 12; p++)
            {
                render_f32(f, p, (p & 3) == 0);
                for (int i = 0; i < 7; i++)
                {
                    render_f64(R_F64, dd[i], p);
                    if (i < 3)
                        render_f64(R_FTOA, dd[i], p);
                }
            }
        }
    }
    vf::count_bulk(5 * 2 * 14 * 11, 5 * 2 * 14 * 11);
}
static void pow2_run(uint64_t c)
{
    if (c < (uint64_t)N_POW2)
    {
        int e = (int)c - 149;
        pow2_float(bits_of(ldexpf(1.0f, e)));
        if (e == 64)
            vf::sample("pow2: 2^64 = 0x%08x and its +-2 ulp neighbours, both signs, precisions -1..12, f32toa/f64toa/ftoa", bits_of(ldexpf(1.0f, e)));
    }
    else if (c < (uint64_t)N_POW2 + 20)
    {
        // 2^64 * 10^k, k = 0..19 (k = 19 is beyond FLT_MAX for the upper neighbours only)
        double v = 18446744073709551616.0 * pow(10.0, (double)(c - N_POW2));
        if (v < (double)FLT_MAX)
            pow2_float(bits_of((float)v));
    }
    else
    {
        static const double K[] = {16777216.0, 9007199254740992.0, 2147483648.0, 4294967296.0, 1e10, 1e19, 1e20, 1e30, 1e38, 3.4e38, (double)FLT_MAX, 1.0, 10.0, 0.1};
        for (double v : K)
            pow2_float(bits_of((float)v));
    }
    VF_OK("powers of two: 2^e and its +-1, +-2 ulp neighbours, every precision, float and double entry points");
}
VF_SUITE(render_pow2, pow2_count, pow2_run)

// ---------------------------------------------------------------- parse side
struct Lit
{
    size_t len = 0;       // length of the longest prefix matching [+-]?d*(.d*)?([eE][+-]?d+)?
    bool mant_digits = false;
    int nint = 0, nfrac = 0, nsig = 0;
    bool has_exp = false, exp_neg = false, exp_plus = false, lead_plus = false, lead_minus = false;
    long expv = 0; // saturated
    int expdigits = 0;
};
static Lit match_literal(const char *s)
{
    Lit L;
    const char *p = s;
    if (*p == '+' || *p == '-')
    {
        L.lead_plus = *p == '+';
        L.lead_minus = *p == '-';
        p++;
    }
    bool seen_nz = false;
    while (*p >= '0' && *p <= '9')
    {
        if (*p != '0')
            seen_nz = true;
        if (seen_nz)
            L.nsig++;
        L.nint++;
        p++;
    }
    if (*p == '.')
    {
        p++;
        while (*p >= '0' && *p <= '9')
        {
            if (*p != '0')
                seen_nz = true;
            if (seen_nz)
                L.nsig++;
            L.nfrac++;
            p++;
        }
    }
    L.mant_digits = L.nint + L.nfrac > 0;
    if (*p == 'e' || *p == 'E')
    {
        const char *q = p + 1;
        bool neg = false, plus = false;
        if (*q == '+' || *q == '-')
        {
            neg = *q == '-';
            plus = *q == '+';
            q++;
        }
        if (*q >= '0' && *q <= '9')
        {
            L.has_exp = true;
            L.exp_neg = neg;
            L.exp_plus = plus;
            while (*q >= '0' && *q <= '9')
            {
                if (L.expv < 100000000)
                    L.expv = L.expv * 10 + (*q - '0');
                L.expdigits++;
                q++;
            }
            p = q;
        }
    }
    L.len = (size_t)(p - s);
    return L;
}
static const char *value_class(const Lit &L)
{
    if (L.has_exp && L.expdigits > 4)
        return "exponent-many-digits";
    if (L.lead_plus)
        return "leading-plus";
    if (L.nint == 0)
        return "leading-dot";
    if (L.has_exp)
        return L.exp_neg ? "exponent-negative" : L.exp_plus ? "exponent-plus" : "exponent-unsigned";
    if (L.nint > 9)
        return "integer-part>9-digits";
    if (L.nfrac > 18)
        return "fraction>18-digits";
    if (L.nfrac)
        return "fraction";
    return "integer";
}
static const char *tail_class(const char *s, const Lit &L)
{
    char c = s[L.len];
    if (!c)
        return "nul";
    if (c == 'e' || c == 'E')
        return "dangling-exponent";
    if (c == '.')
        return "second-dot";
    return "other";
}
enum Entry { E_ATOF64, E_STRTOD_IGRIS, E_STRTOD_COMPAT, E_ATOF_COMPAT, E_ATOF32, N_ENTRY };
static const char *ENAME[N_ENTRY] = {"igris_atof64", "igris_strtod", "strtod", "atof", "igris_atof32"};

static void judge_literal(const std::string &S)
{
    Lit L = match_literal(S.c_str());
    if (!L.mant_digits)
    {
        // not a decimal literal: value and stop position are not fixed by the statement, but the out-parameter must not
        // be left stale: *end has to be written and must point into the text
        vf::ExactStr in0(S);
        char key0[128];
        static char elsewhere[16];
        for (int en = 0; en < N_ENTRY; en++)
        {
            if (en == E_ATOF_COMPAT)
                continue;
            vf::cls(ENAME[en]);
            char *poison = (S.size() + en) & 1 ? (char *)1 : elsewhere + 7, *end = poison;
            if (vf::verbose())
                printf("  %s(\"%s\") [no mantissa digit]\n", ENAME[en], vf::esc(S.data(), S.size()).c_str());
            switch (en)
            {
            case E_ATOF32: (void)igris_atof32(in0.cc(), &end); break;
            case E_ATOF64: (void)igris_atof64(in0.cc(), &end); break;
            case E_STRTOD_IGRIS: (void)igris_strtod(in0.cc(), &end); break;
            default: (void)igc_strtod(in0.cc(), &end); break;
            }
            if (end == poison)
            {
                snprintf(key0, sizeof key0, "parse:%s:end-not-set:no-digits", ENAME[en]);
                vf::fail(key0, "text=\"%s\" *end was not written", vf::esc(S.data(), S.size()).c_str());
            }
            if (end < in0.cc() || end > in0.cc() + S.size())
            {
                snprintf(key0, sizeof key0, "parse:%s:end-outside-text:no-digits", ENAME[en]);
                vf::fail(key0, "text=\"%s\" *end = text%+ld", vf::esc(S.data(), S.size()).c_str(), (long)(end - in0.cc()));
            }
        }
        VF_OK("parse: text without a mantissa digit: *end written and inside the text");
        return;
    }
    // reference: glibc strtod on exactly the grammar prefix (so hex floats / inf / nan spellings cannot interfere)
    std::string prefix = S.substr(0, L.len);
    char *e = nullptr;
    double ref = strtod(prefix.c_str(), &e);
    if ((size_t)(e - prefix.c_str()) != L.len)
        vf::fail("harness:glibc-prefix", "glibc strtod stops after %ld of \"%s\"", (long)(e - prefix.c_str()), prefix.c_str());
    long scal = L.has_exp ? (L.exp_neg ? -L.expv : L.expv) : 0;
    long steps = labs(scal - L.nfrac) + (L.nsig > 15 ? L.nsig - 15 : 0);
    if (steps > 5000)
        steps = 5000;
    const char *vcls = value_class(L), *tcls = tail_class(S.c_str(), L);
    if (vf::verbose())
        printf("  literal \"%s\" prefix %zu chars, glibc=%.17g (%a), steps=%ld\n", vf::esc(S.data(), S.size()).c_str(), L.len, ref, ref, steps);
    vf::ExactStr in(S);
    char key[128];
    for (int en = 0; en < N_ENTRY; en++)
    {
        vf::cls(ENAME[en]);
        char *end = (char *)-1; // poisoned before every call
        double got;
        switch (en)
        {
        case E_ATOF32: got = (double)igris_atof32(in.cc(), &end); break;
        case E_ATOF64: got = igris_atof64(in.cc(), &end); break;
        case E_STRTOD_IGRIS: got = igris_strtod(in.cc(), &end); break;
        case E_STRTOD_COMPAT: got = igc_strtod(in.cc(), &end); break;
        default: got = igc_atof(in.cc()); end = nullptr; break;
        }
        // ---- value
        bool f32 = en == E_ATOF32;
        // float entry point: glibc strtof of the same prefix (no double rounding); the others: strtod
        double want = f32 ? (double)strtof(prefix.c_str(), nullptr) : ref;
        bool ok;
        double errulps = 0;
        if (std::isinf(want))
            ok = got == want || (std::isfinite(got) && !f32 && fabs(got) >= DBL_MAX - (4 + steps) * ulp64(DBL_MAX)) ||
                 (std::isfinite(got) && f32 && fabs(got) >= (double)FLT_MAX - (4 + steps) * ulp32(FLT_MAX));
        else if (std::isnan(got))
            ok = false;
        else if (std::isinf(got)) // the float result is a plain narrowing of the double: it must be finite whenever strtof's is
            ok = !f32 && (got > 0) == (want > 0) && fabs(want) >= DBL_MAX - (4 + steps) * ulp64(DBL_MAX);
        else
        {
            double u = f32 ? ulp32(fabs(want)) : ulp64(fabs(want));
            errulps = (double)(fabsl((long double)got - (long double)want) / (long double)u);
            ok = errulps <= 4 + steps;
        }
        if (!ok)
        {
            snprintf(key, sizeof key, "parse:%s:value:%s", ENAME[en], vcls);
            vf::fail(key, "text=\"%s\" got=%.17g (%a) glibc (strtod; strtof for atof32)=%.17g (%a) error=%.1f ulp, allowed %ld", vf::esc(S.data(), S.size()).c_str(), got, got,
                     want, want, errulps, 4 + steps);
        }
        VF_MAX("parse: max error / allowed (4 + steps) ulp, ppm", (uint64_t)(errulps / (4 + steps) * 1e6));
        if (f32)
            VF_MAX("parse: igris_atof32 max error, milli-ulp32", (uint64_t)(errulps * 1000));
        else
            VF_MAX("parse: atof64/strtod/atof max error, milli-ulp64", (uint64_t)(errulps * 1000));
        // a zero result keeps nothing of a sign error: check the sign bit too when the literal is a signed zero? not demanded.
        // ---- end pointer
        if (en != E_ATOF_COMPAT)
        {
            if (end == (char *)-1)
            {
                snprintf(key, sizeof key, "parse:%s:end-not-set:%s", ENAME[en], vcls);
                vf::fail(key, "text=\"%s\" *end was not written", vf::esc(S.data(), S.size()).c_str());
            }
            if (end != in.cc() + L.len)
            {
                snprintf(key, sizeof key, "parse:%s:end:%s", ENAME[en], tcls);
                vf::fail(key, "text=\"%s\" literal is %zu chars, *end = text%+ld", vf::esc(S.data(), S.size()).c_str(), L.len, (long)(end - in.cc()));
            }
            // the end pointer is optional
            double g2 = en == E_ATOF32 ? (double)igris_atof32(in.cc(), nullptr) : en == E_ATOF64 ? igris_atof64(in.cc(), nullptr)
                      : en == E_STRTOD_IGRIS ? igris_strtod(in.cc(), nullptr) : igc_strtod(in.cc(), nullptr);
            if (!(g2 == got || (std::isnan(g2) && std::isnan(got))))
            {
                snprintf(key, sizeof key, "parse:%s:value:end==NULL", ENAME[en]);
                vf::fail(key, "text=\"%s\" with end: %.17g, without: %.17g", vf::esc(S.data(), S.size()).c_str(), got, g2);
            }
        }
    }
    VF_OK("parse: value within (4 + scaling steps) ulp of glibc strtod, all five entry points");
    VF_OK("parse: *end at the end of the longest grammar prefix, four entry points");
    if (L.has_exp)
    {
        if (L.exp_neg)
            VF_OK("parse: literal with a negative exponent");
        else
            VF_OK("parse: literal with a positive exponent");
    }
    if (L.nfrac)
        VF_OK("parse: literal with a fraction");
    if (L.lead_minus)
        VF_OK("parse: negative literal");
    if (tcls[0] == 'd')
        VF_OK("parse: dangling e/E after the literal is not consumed");
    vf::count_case(vf::hash_bytes(S.data(), S.size()), L.nint + L.nfrac > 1 || L.has_exp);
}

// (d) grammar product over short pieces
static const char *SIGNS[3] = {"", "-", "+"};
static const char *INTS[9] = {"", "0", "1", "7", "10", "42", "007", "999", "123456789"};
static const char *FRACS[10] = {"", ".", ".0", ".5", ".25", ".125", ".05", ".999", ".000001", ".333333333"};
static const char *EXPS[15] = {"", "e0", "e1", "E1", "e+1", "e-1", "e2", "e-2", "E+2", "E-3", "e10", "e-10", "e+38", "e-38", "e05"};
static const char *TAILS[10] = {"", " ", "x", "e", "e+", "E-", ".", "f", "-1", "\xff"};
static uint64_t gram_total() { return 3ull * 9 * 10 * 15 * 10; }
static const uint64_t GB = 100;
static uint64_t gram_count() { return gram_total() / GB; }
static void gram_run(uint64_t c)
{
    for (uint64_t i = c * GB; i < (c + 1) * GB; i++)
    {
        uint64_t k = i;
        std::string s = SIGNS[k % 3];
        k /= 3;
        s += INTS[k % 9];
        k /= 9;
        s += FRACS[k % 10];
        k /= 10;
        s += EXPS[k % 15];
        k /= 15;
        s += TAILS[k % 10];
        judge_literal(s);
        if (i == 1234 && vf::want_sample())
            vf::sample("grammar: \"%s\" through igris_atof32/atof64/strtod, compat strtod/atof", vf::esc(s.data(), s.size()).c_str());
    }
}
VF_SUITE(parse_grammar, gram_count, gram_run)

// (d2) range and exactness boundaries: exact and shortest-round-trip spellings of FLT_MAX, FLT_MIN, FLT_TRUE_MIN, DBL_MAX,
//      DBL_MIN, DBL_TRUE_MIN, values a little above / below the binary32 and binary64 overflow midpoints, 2^24+-1, 2^53+-1,
//      powers of ten at the exactness limits, and the largest-magnitude floats / doubles printed with %.9g / %.17g.
static std::string fmt(const char *f, double v)
{
    char b[420];
    snprintf(b, sizeof b, f, v);
    return b;
}
static uint64_t bound_count() { return 4 + (vf::thorough() ? 400 : 40); }
static void bound_run(uint64_t c)
{
    std::vector<std::string> L;
    if (c == 0)
    {
        const double F[] = {(double)FLT_MAX, (double)FLT_MIN, 0x1p-149, (double)nextafterf(FLT_MAX, 0), (double)nextafterf(FLT_MIN, 0), (double)nextafterf(FLT_MIN, 1),
                            0x1p-148, 0x1.8p-149, 16777215.0, 16777216.0, 16777217.0, 33554431.0, 1e10, 1e22, 1e23};
        for (double v : F)
            for (const char *f : {"%.9g", "%.8g", "%.17g", "%.0f", "%.60f", "%.12e"})
            {
                std::string t = fmt(f, v);
                if (t.size() <= 330)
                    L.push_back(t), L.push_back("-" + t);
            }
        for (const char *t : {"3.4028235e38", "3.40282347e+38", "3.4028234e38", "3.4028234663852886e38", "340282346638528859811704183484516925440", "1.17549435e-38",
                              "1.1754944e-38", "1.4e-45", "1e-45", "1.40129846e-45", "7e-46", "7.1e-46", "0.7e-45"})
            L.push_back(t), L.push_back(std::string("-") + t), L.push_back(std::string(t) + "x");
    }
    else if (c == 1)
    {
        // around the binary32 overflow midpoint 2^128 - 2^103: a 2^-32 relative step below -> FLT_MAX, above -> infinity
        const double MID = 0x1.ffffffp127;
        for (double v : {MID * (1 - 0x1p-32), MID * (1 + 0x1p-32), MID * (1 - 0x1p-26), MID * (1 + 0x1p-26), 3.4028236e38, 3.4028237e38, 3.5e38, 1e39, 6.8e38})
            for (const char *f : {"%.17g", "%.20g", "%.0f"})
                L.push_back(fmt(f, v)), L.push_back("-" + fmt(f, v));
        for (const char *t : {"3.4028235677973366e38", "3.4028235677973362e38", "3.402823567797337e38", "3.4028236e38", "3.4028235e+38", "34028235e31", "0.34028235e39",
                              "340282350000000000000000000000000000000", "340282356000000000000000000000000000000.0", "3.4028235e0038"})
            L.push_back(t), L.push_back(std::string("-") + t);
    }
    else if (c == 2)
    {
        const double D[] = {DBL_MAX, DBL_MIN, 0x1p-1074, nextafter(DBL_MAX, 0), nextafter(DBL_MIN, 0), nextafter(DBL_MIN, 1), 0x1p-1073, 9007199254740991.0,
                            9007199254740992.0, 9007199254740993.0, 18014398509481983.0, 1e22, 1e23, 1e15, 1e16, 0x1p63, 0x1p64};
        for (double v : D)
            for (const char *f : {"%.17g", "%.16g", "%.15g", "%.20e"})
                L.push_back(fmt(f, v)), L.push_back("-" + fmt(f, v));
        for (const char *t : {"1.7976931348623157e308", "1.7976931348623158e308", "1.797693134862315e308", "17976931348623157e292", "2.2250738585072014e-308",
                              "2.2250738585072011e-308", "4.9406564584124654e-324", "5e-324", "4.9e-324", "2e-324", "3e-324", "2.4703282292062328e-324", "1.8e308", "2e308",
                              "1e309", "9007199254740993", "9007199254740992.5", "16777217", "16777216.5", "1e22", "1e23", "10000000000", "1e10"})
            L.push_back(t), L.push_back(std::string("-") + t);
    }
    else if (c == 3)
    {
        // %.0f / %.330f spellings (long digit strings) of the double limits are outside the <= 40 mantissa digits the workload
        // promises; the float ones (<= 39 integer digits) are inside
        for (double v : {(double)FLT_MAX, (double)nextafterf(FLT_MAX, 0), 0x1p127, 0x1p126, 1e38, 3e38})
            L.push_back(fmt("%.0f", v)), L.push_back("-" + fmt("%.0f", v)), L.push_back(fmt("%.1f", v));
    }
    else
    {
        // round trip of the largest-magnitude (and smallest normal / subnormal) floats and doubles through %.9g / %.17g
        vf::Rng r(vf::seed(), 0xC12D, c);
        for (int i = 0; i < 50; i++)
        {
            uint32_t e = r.chance(2, 3) ? 254 - (uint32_t)r.below(3) : (uint32_t)r.below(3);
            uint32_t m = r.chance(1, 3) ? 0x7fffff - (uint32_t)r.below(4) : r.chance(1, 2) ? (uint32_t)r.below(4) : (uint32_t)r.next() & 0x7fffff;
            float f = f32_of((uint32_t)(r.below(2) << 31) | e << 23 | m);
            L.push_back(fmt("%.9g", (double)f));
            uint64_t de = r.chance(2, 3) ? 2046 - r.below(3) : r.below(3);
            uint64_t dm = r.chance(1, 3) ? 0xfffffffffffffull - r.below(4) : r.chance(1, 2) ? r.below(4) : r.next() & 0xfffffffffffffull;
            L.push_back(fmt("%.17g", f64_of(r.below(2) << 63 | de << 52 | dm)));
        }
    }
    for (const std::string &t : L)
        judge_literal(t);
    VF_OKN("parse: range / exactness boundary literals (FLT_MAX, FLT_MIN, DBL_MAX, midpoints, 2^24+-1, 2^53+-1, %.9g / %.17g round trips)", L.size());
    if (c == 0)
        vf::sample("boundary literals: \"3.4028235e38\", \"3.40282347e+38\", \"1.17549435e-38\", \"1.4e-45\", \"16777217\" ... all five entry points");
}
VF_SUITE(parse_boundaries, bound_count, bound_run)

// (e) random literals
static std::string digits(vf::Rng &r, int n)
{
    std::string s;
    int mode = (int)r.below(4);
    for (int i = 0; i < n; i++)
        s += (char)('0' + (mode == 0 ? r.below(10) : mode == 1 ? (r.chance(1, 2) ? 9 : r.below(10)) : mode == 2 ? (r.chance(2, 3) ? 0 : r.below(10)) : r.below(10)));
    return s;
}
static const uint64_t LB = 200;
static uint64_t lit_count() { return (vf::thorough() ? 10000000ull : 300000ull) / LB / REDUCE; }
static void lit_run(uint64_t c)
{
    vf::Rng r(vf::seed(), 0xC12A, c);
    for (uint64_t k = 0; k < LB; k++)
    {
        std::string s = SIGNS[r.chance(1, 2) ? 0 : 1 + r.below(2)];
        int ni = r.chance(1, 8) ? 0 : r.chance(3, 4) ? 1 + (int)r.below(9) : 1 + (int)r.below(25);
        s += digits(r, ni);
        if (r.chance(2, 3))
        {
            s += '.';
            int nf = r.chance(1, 10) ? 0 : r.chance(3, 4) ? 1 + (int)r.below(9) : 1 + (int)r.below(25);
            if (ni + nf > 40)
                nf = 40 - ni;
            s += digits(r, nf);
        }
        if (r.chance(1, 2))
        {
            s += r.chance(1, 2) ? 'e' : 'E';
            s += SIGNS[r.below(3)];
            int mode = (int)r.below(20);
            if (mode == 0)
                s += digits(r, 5 + (int)r.below(8)); // many exponent digits
            else if (mode < 4)
                s += std::to_string(280 + r.below(60)); // around the binary64 range limits
            else if (mode < 8)
                s += std::to_string(30 + r.below(20)); // around the binary32 range limits
            else
                s += (r.chance(1, 4) ? "0" : "") + std::to_string(r.below(30));
        }
        s += TAILS[r.chance(1, 2) ? 0 : r.below(10)];
        if (r.chance(1, 16))
            s += digits(r, 1 + (int)r.below(3));
        judge_literal(s);
        if (k == 0 && vf::want_sample())
            vf::sample("literal: \"%s\"", vf::esc(s.data(), s.size()).c_str());
    }
}
VF_SUITE(parse_random, lit_count, lit_run)

// (f) round trip: what the renderer prints is read back by the parsers (short decimals are exact to the printed digit)
static uint64_t rt_count() { return (vf::thorough() ? 2000000ull : 100000ull) / RB / REDUCE; }
static void rt_run(uint64_t c)
{
    vf::Rng r(vf::seed(), 0xC12B, c);
    OutBuf &o = outbuf();
    for (uint64_t k = 0; k < RB; k++)
    {
        uint32_t b = biased32(r);
        float f = f32_of(b);
        if (!std::isfinite(f))
            continue;
        int p = r.range(-1, 10);
        o.arm();
        igris_f32toa(f, o.p, (int8_t)p);
        o.dirty = WIN;
        std::string text = o.p;
        if (text.find_first_not_of("-0123456789.") != std::string::npos)
            continue; // reported by the render suites
        judge_literal(text);
        VF_OK("round trip: igris_f32toa text is read back by every parser like glibc reads it");
    }
}
VF_SUITE(roundtrip, rt_count, rt_run)


// (g) calls made during static initialisation of this (earlier-linked) TU, in a forked child; judged by a case.
struct EarlyData12
{
    EarlyText txt[5];
    long ret_off[5];
    double val[5];
    long endoff[4];
};
static void early_calls12(EarlyData12 &E)
{
    char b[80];
    char *r;
    r = igris_f32toa(1234.5f, b, 3), E.txt[0].set(b, strlen(b)), E.ret_off[0] = r - b;
    r = igris_f32toa(-0.0625f, b, -1), E.txt[1].set(b, strlen(b)), E.ret_off[1] = r - b;
    r = igris_f64toa(18446744073709551616.0, b, 0), E.txt[2].set(b, strlen(b)), E.ret_off[2] = r - b;
    r = igris_ftoa(-99.96875, b, 10), E.txt[3].set(b, strlen(b)), E.ret_off[3] = r - b;
    r = igris_f32toa(-INFINITY, b, 2), E.txt[4].set(b, strlen(b)), E.ret_off[4] = r - b;
    char *e = (char *)1;
    E.val[0] = igris_atof64("-12.5e1x", &e), E.endoff[0] = e == (char *)1 ? -999 : (long)strlen(e);
    e = (char *)1;
    E.val[1] = igris_atof32("+.75E-1 ", &e), E.endoff[1] = e == (char *)1 ? -999 : (long)strlen(e);
    e = (char *)1;
    E.val[2] = igris_strtod("307582293.333333", &e), E.endoff[2] = e == (char *)1 ? -999 : (long)strlen(e);
    e = (char *)1;
    E.val[3] = igc_strtod("1e", &e), E.endoff[3] = e == (char *)1 ? -999 : (long)strlen(e);
    E.val[4] = igc_atof("-0.001953125");
}
static EarlyRun<EarlyData12> g_early12(early_calls12);
static uint64_t early_count() { return 1; }
static void early_run(uint64_t)
{
    vf::cls("static-init");
    if (g_early12.hung)
        vf::fail("static-init:hang", "a call made during static initialisation did not return within 5 s of CPU time");
    if (g_early12.died)
        vf::fail("static-init:crash", "the child that calls the converters during static initialisation died (sanitizer report in stderr.txt)");
    const EarlyData12 &E = *g_early12.data;
    static const double X[4] = {1234.5, -0.0625, 18446744073709551616.0, -99.96875};
    static const int NFRAC[4] = {3, -1, 0, 10};
    for (int i = 0; i < 4; i++)
    {
        std::string t(E.txt[i].d, E.txt[i].len);
        bool ok = !t.empty() && t.find_first_not_of("-0123456789.") == std::string::npos && E.ret_off[i] == 0;
        size_t dot = t.find('.');
        int nfrac = dot == std::string::npos ? 0 : (int)(t.size() - dot - 1);
        if (NFRAC[i] >= 0 && nfrac != NFRAC[i])
            ok = false;
        double v = ok ? strtod(t.c_str(), nullptr) : 0;
        double tol = pow(10.0, -nfrac) + 4 * ulp32(fabs(X[i]) > 1 ? fabs(X[i]) : 1.0);
        if (!ok || fabs(v - X[i]) > tol)
            vf::fail("static-init:render:!=reference", "call %d (x=%.17g) gave \"%s\" (returned buf%+ld)", i, X[i], vf::esc(t.data(), t.size()).c_str(), E.ret_off[i]);
    }
    if (std::string(E.txt[4].d, E.txt[4].len) != "-inf" || E.ret_off[4] != 0)
        vf::fail("static-init:render:!=reference", "-inf gave \"%s\"", vf::esc(E.txt[4].d, E.txt[4].len).c_str());
    static const double PV[5] = {-125.0, 0.075, 307582293.333333, 1.0, -0.001953125};
    static const long PE[4] = {1, 1, 0, 1};
    for (int i = 0; i < 5; i++)
    {
        double u = i == 1 ? ulp32(fabs(PV[i])) : ulp64(fabs(PV[i]));
        static const int ALLOWED[5] = {4, 7, 10, 4, 13}; // 4 + decimal scaling steps of each literal
        if (fabs(E.val[i] - PV[i]) > ALLOWED[i] * u || (i < 4 && E.endoff[i] != PE[i]))
            vf::fail("static-init:parse:!=reference", "call %d value %.17g (want %.17g), %ld characters behind *end (want %ld)", i, E.val[i], PV[i],
                     i < 4 ? E.endoff[i] : 0, i < 4 ? PE[i] : 0);
    }
    VF_OK("converters called during static initialisation of an earlier-linked TU are within the same tolerances");
    vf::count_bulk(1, 1);
}
VF_SUITE(static_init, early_count, early_run)

extern "C" void vf_setup()
{
    for (const char *c : {"render: inf/nan -> token with the right sign, returned pointer == buf",
                          "render: only [-0-9.] characters, NUL inside the block, nothing written behind the text",
                          "render: shape -?digits[.digits] with exactly the requested number of fraction digits",
                          "render: |text - x| <= 10^-P + 4 ulp32(max(|x|,1)) for |x| < 2^31",
                          "render: |text - x| <= 10^-P + 4 ulp32(|x|) for 2^31 <= |x| < 2^64", "render: |text - x| <= 10^-P + 4 ulp32(|x|) for |x| >= 2^64",
                          "powers of two: 2^e and its +-1, +-2 ulp neighbours, every precision, float and double entry points",
                          "render: glibc strtod(text) agrees with the harness' reader (sample)",
                          "sweep: 2^16 consecutive binary32 patterns x precisions {-1,0,3,10}",
                          "parse: value within (4 + scaling steps) ulp of glibc strtod, all five entry points",
                          "parse: *end at the end of the longest grammar prefix, four entry points", "parse: literal with a negative exponent",
                          "parse: literal with a positive exponent", "parse: literal with a fraction", "parse: negative literal",
                          "parse: dangling e/E after the literal is not consumed",
                          "parse: text without a mantissa digit: *end written and inside the text",
                          "parse: range / exactness boundary literals (FLT_MAX, FLT_MIN, DBL_MAX, midpoints, 2^24+-1, 2^53+-1, %.9g / %.17g round trips)",
                          "converters called during static initialisation of an earlier-linked TU are within the same tolerances",
                          "round trip: igris_f32toa text is read back by every parser like glibc reads it"})
        vf::require(c);
}
