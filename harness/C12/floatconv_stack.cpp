// C12 (plain unit, no sanitizer): float renderers and parsers from a thread with a SMALL stack (64 / 128 KiB), the parsers
// on very long literals (64 KiB / 1.5 MiB of leading zeros in the mantissa and in the exponent). A converter that copies
// its input to a scratch area on the stack overflows for a long text: small-stack:<routine>:crash.
#define VF_MAIN
#include "vf.h"
#include "small_stack.h"
#include <igris/util/numconvert.h>
#include <cfloat>
#include <cmath>
#include <string>

extern "C"
{
    double igc_strtod(const char *nptr, char **endptr);
    double igc_atof(const char *nptr);
}
static const char *RNAME[8] = {"igris_f32toa", "igris_f64toa", "igris_ftoa", "igris_atof64", "igris_strtod", "strtod", "atof", "igris_atof32"};
static bool near(double got, double want, double ulps, bool f32)
{
    int e;
    frexp(want, &e);
    double u = ldexp(1.0, e - (f32 ? 24 : 53));
    return fabs(got - want) <= ulps * u;
}
static uint64_t ss_count() { return 2 * 2; }
static void ss_run(uint64_t c)
{
    size_t pad = (c % 2 ? 1536u << 10 : 64u << 10) + (size_t)(vf::seed() % 5), stack = c / 2 ? 128 << 10 : 64 << 10;
    std::string zeros(pad, '0');
    std::string lit = "-" + zeros + "12.5e" + zeros + "1", t1 = lit + "x", t2 = "+" + zeros + "." + "75E-" + zeros + "2 ";
    vf::cls("small-stack");
    if (vf::verbose())
        printf("  %zu leading zeros in mantissa and exponent, thread stack %zu KiB\n", pad, stack >> 10);
    SmallStackOutcome o = run_small_stack(stack, [&](SmallStackShared &sh) {
        auto chk = [&](int i, bool ok) { if (!ok) sh.bad |= 1ul << i; };
        char b[80];
        char *e;
        sh.current = 0, chk(0, igris_f32toa(-FLT_MAX, b, 10) == b && strlen(b) == 51 && near(strtod(b, nullptr), -(double)FLT_MAX, 4, true));
        sh.current = 1, chk(1, igris_f64toa(1234.5, b, 3) == b && !strcmp(b, "1234.500"));
        sh.current = 2, chk(2, igris_ftoa(-0.0625, b, 4) == b && !strcmp(b, "-0.0625"));
        sh.current = 3, e = (char *)1, chk(3, near(igris_atof64(t1.c_str(), &e), -125.0, 5, false) && e == t1.c_str() + lit.size());
        sh.current = 4, e = (char *)1, chk(4, near(igris_strtod(t2.c_str(), &e), 0.0075, 8, false) && e == t2.c_str() + t2.size() - 1);
        sh.current = 5, e = (char *)1, chk(5, near(igc_strtod(t1.c_str(), &e), -125.0, 5, false) && e == t1.c_str() + lit.size());
        sh.current = 6, chk(6, near(igc_atof(t2.c_str()), 0.0075, 8, false));
        sh.current = 7, e = (char *)1, chk(7, near((double)igris_atof32(t1.c_str(), &e), -125.0, 5, true) && e == t1.c_str() + lit.size());
        sh.current = 8;
    });
    char key[120];
    if (o.crashed)
    {
        const char *rn = o.current >= 0 && o.current < 8 ? RNAME[o.current] : "harness";
        snprintf(key, sizeof key, "small-stack:%s:%s", rn, o.hung ? "hang" : "crash");
        vf::fail(key, "%zu leading zeros on a %zu KiB thread stack: child ended with signal %d while in %s", pad, stack >> 10, o.sig, rn);
    }
    for (int i = 0; i < 8; i++)
        if (o.bad & (1ul << i))
        {
            snprintf(key, sizeof key, "small-stack:%s:!=reference", RNAME[i]);
            vf::fail(key, "%zu leading zeros on a %zu KiB thread stack: result differs from the reference", pad, stack >> 10);
        }
    VF_OK("float renderers, and parsers on 64 KiB / 1.5 MiB literals, from a thread with a 64 / 128 KiB stack == reference");
    vf::count_bulk(8, 8);
    if (c == 1)
        vf::sample("small-stack: %zu leading zeros in mantissa and exponent, %zu KiB stack, all renderers and parsers", pad, stack >> 10);
}
VF_SUITE(small_stack, ss_count, ss_run)

extern "C" void vf_setup() { vf::require("float renderers, and parsers on 64 KiB / 1.5 MiB literals, from a thread with a 64 / 128 KiB stack == reference"); }
