// C12 (TSan unit): the float <-> text converters are pure functions of their arguments and are called from several
// threads / from an ISR without a lock. Each case runs in a FRESH process (vf::mt_run): 2..4 threads are released
// together; every thread renders its own values with igris_f32toa / igris_f64toa / igris_ftoa into its own buffers and
// parses its own literals with igris_atof32 / atof64 / igris_strtod / compat strtod / atof, in rotated order, while the
// other threads do the same with other values. Judged inside the threads against data prepared BEFORE they start:
//   * always: the tolerances of the sequential check (shape, |text - x| <= 10^-P + 4 ulp32; parse within (4 + steps) ulp
//     of glibc strtod, *end at the end of the literal) - independent of igris, works in the first-use state;
//   * odd cases additionally: exact equality with what the same calls returned sequentially in the prelude of the same
//     process (most sensitive to interference; the prelude is not a first use any more).
// A wrong value is reported from the mismatch mask, an unsynchronised access inside igris by ThreadSanitizer.
#define VF_MAIN
#include "vf.h"
#include "mt.h"
#include <igris/util/numconvert.h>
#include <cfloat>
#include <cmath>
#include <string>

extern "C"
{
    double igc_strtod(const char *nptr, char **endptr);
    double igc_atof(const char *nptr);
}
static double ulp32(double y)
{
    if (y < 0x1p-126)
        return 0x1p-149;
    int e;
    frexp(y, &e);
    return ldexp(1.0, e - 24);
}
static double ulp64(double y)
{
    if (y < 0x1p-1022)
        return 0x1p-1074;
    int e;
    frexp(y, &e);
    return ldexp(1.0, e - 53);
}

enum { G_F32TOA = 1, G_F64TOA = 2, G_ATOF32 = 4, G_ATOF64 = 8, G_COMPAT = 16 };
static const char *GNAME[5] = {"igris_f32toa", "igris_f64toa/igris_ftoa", "igris_atof32", "igris_atof64/igris_strtod", "strtod/atof (compat)"};

struct RenderItem
{
    float f;
    double d;
    int prec;
    std::string seq32, seq64, seqf; // sequential results from the prelude (odd cases)
};
struct ParseItem
{
    std::string text; // literal ++ tail
    size_t litlen;
    double ref;    // glibc strtod of the literal
    double allowed; // 4 + decimal scaling steps
    double seq[5];
};
struct Plan
{
    std::vector<RenderItem> r;
    std::vector<ParseItem> p;
    int order, rounds;
};
static bool exact = false;

// shape + tolerance of one finite rendering (x finite, within the binary32 range)
static bool render_ok(const char *t, const char *ret, const char *buf, double x, int prec)
{
    if (ret != buf)
        return false;
    if (std::isnan(x))
        return strcasecmp(t[0] == '+' || t[0] == '-' ? t + 1 : t, "nan") == 0;
    if (std::isinf(x))
        return strcasecmp(t, x < 0 ? "-inf" : "+inf") == 0 || (x > 0 && strcasecmp(t, "inf") == 0);
    size_t n = strlen(t);
    if (!n || n > 60 || strspn(t, "-0123456789.") != n)
        return false;
    const char *dot = strchr(t, '.');
    int nfrac = dot ? (int)strlen(dot + 1) : 0;
    if (prec >= 0 && prec <= 10 && nfrac != prec)
        return false;
    double v = strtod(t, nullptr), ax = fabs(x);
    double tol = pow(10.0, -nfrac) + 4 * ulp32(ax > 1 ? ax : 1.0);
    return fabs(v - x) <= tol * (1 + 1e-12);
}
static bool parse_ok(double got, const char *end, const ParseItem &it, bool f32)
{
    if (end && end != it.text.c_str() + it.litlen)
        return false;
    double want = it.ref;
    if (f32)
        want = fabs(want) >= 0x1.ffffffp127 ? (want < 0 ? -INFINITY : INFINITY) : (double)(float)want;
    if (std::isinf(want) || std::isinf(got) || std::isnan(got))
        return got == want;
    double u = f32 ? ulp32(fabs(want)) : ulp64(fabs(want));
    return fabs(got - want) <= it.allowed * u;
}

static unsigned work(const Plan &p)
{
    unsigned bad = 0;
    char b1[80], b2[80];
    for (int round = 0; round < p.rounds; round++)
        for (int k = 0; k < 5; k++)
        {
            int which = (k + p.order) % 5;
            if (which < 2)
                for (const RenderItem &it : p.r)
                {
                    if (which == 0)
                    {
                        char *r = igris_f32toa(it.f, b1, (int8_t)it.prec);
                        if (!render_ok(b1, r, b1, (double)it.f, it.prec) || (exact && it.seq32 != b1))
                            bad |= G_F32TOA;
                    }
                    else
                    {
                        char *r = igris_f64toa(it.d, b1, (int8_t)it.prec);
                        char *q = igris_ftoa(it.d, b2, (int8_t)it.prec);
                        if (!render_ok(b1, r, b1, it.d, it.prec) || !render_ok(b2, q, b2, it.d, it.prec) || (exact && (it.seq64 != b1 || it.seqf != b2)))
                            bad |= G_F64TOA;
                    }
                }
            else
                for (const ParseItem &it : p.p)
                {
                    char *e = (char *)1;
                    const char *s = it.text.c_str();
                    if (which == 2)
                    {
                        double g = (double)igris_atof32(s, &e);
                        if (!parse_ok(g, e, it, true) || (exact && memcmp(&g, &it.seq[0], 8) != 0))
                            bad |= G_ATOF32;
                    }
                    else if (which == 3)
                    {
                        double g = igris_atof64(s, &e);
                        char *e2 = (char *)1;
                        double h = igris_strtod(s, &e2);
                        if (!parse_ok(g, e, it, false) || !parse_ok(h, e2, it, false) || (exact && (memcmp(&g, &it.seq[1], 8) != 0 || memcmp(&h, &it.seq[2], 8) != 0)))
                            bad |= G_ATOF64;
                    }
                    else
                    {
                        double g = igc_strtod(s, &e), h = igc_atof(s);
                        if (!parse_ok(g, e, it, false) || !parse_ok(h, nullptr, it, false) || (exact && (memcmp(&g, &it.seq[3], 8) != 0 || memcmp(&h, &it.seq[4], 8) != 0)))
                            bad |= G_COMPAT;
                    }
                }
        }
    return bad;
}

static std::string digits(vf::Rng &r, int n)
{
    std::string s;
    for (int i = 0; i < n; i++)
        s += (char)('0' + r.below(10));
    return s;
}
static uint64_t mt_count() { return vf::thorough() ? 3000 : 160; }
static void mt_case(uint64_t idx)
{
    vf::Rng r(vf::seed(), 0xC12E, idx);
    int nthreads = r.range(2, 4);
    Plan plan[4];
    for (int t = 0; t < nthreads; t++)
    {
        Plan &p = plan[t];
        int n = 4 + (int)r.below(6);
        for (int i = 0; i < n; i++)
        {
            RenderItem it;
            // long integer parts (many digits in flight at once), fractions, huge and tiny values
            int e = r.chance(1, 2) ? r.range(0, 63) : r.chance(1, 2) ? r.range(64, 126) : r.range(-30, 0);
            it.f = ldexpf(1.0f + (float)(r.next() >> 41) / 8388608.0f, e);
            if (r.chance(1, 2))
                it.f = -it.f;
            if (r.chance(1, 20))
                it.f = r.chance(1, 2) ? INFINITY : -INFINITY;
            it.d = r.chance(1, 2) ? (double)it.f : ldexp(1.0 + (double)(r.next() >> 12) / 4503599627370496.0, r.range(-20, 100)) * (r.chance(1, 2) ? 1 : -1);
            it.prec = r.range(-1, 10);
            p.r.push_back(it);
        }
        for (int i = 0; i < n; i++)
        {
            ParseItem it;
            std::string sign = r.chance(1, 3) ? "-" : r.chance(1, 4) ? "+" : "";
            int ni = (int)r.below(10), nf = (int)r.below(10);
            if (ni + nf == 0)
                ni = 1;
            std::string ip = digits(r, ni), fp = digits(r, nf), lit = sign + ip;
            if (nf || r.chance(1, 4))
                lit += "." + fp;
            long ex = 0;
            if (r.chance(1, 2))
            {
                ex = r.range(-30, 30);
                lit += (r.chance(1, 2) ? "e" : "E") + std::to_string(ex);
            }
            it.litlen = lit.size();
            static const char *TAILS[6] = {"", " ", "x", "e", "e+", ";1"};
            it.text = lit + TAILS[r.below(6)];
            it.ref = strtod(lit.c_str(), nullptr);
            std::string sig = ip + fp;
            size_t nz = sig.find_first_not_of('0');
            long nsig = nz == std::string::npos ? 0 : (long)(sig.size() - nz);
            it.allowed = 4 + labs(ex - nf) + (nsig > 15 ? nsig - 15 : 0);
            p.p.push_back(it);
        }
        p.order = (t * 2 + (int)r.below(2)) % 5;
        p.rounds = 20 + (int)r.below(40);
    }
    bool with_prelude = idx & 1;
    vf::cls(with_prelude ? "concurrent-after-sequential" : "concurrent-first-use");
    if (vf::verbose())
        printf("  fresh process, %d threads, every float renderer and parser per thread, rotated order, prelude=%d\n", nthreads, (int)with_prelude);
    int mask = vf::mt_run(
        nthreads, [&](int tid) -> unsigned { return work(plan[tid]); },
        [&] {
            if (!with_prelude)
                return;
            exact = true;
            char b[80];
            for (int t = 0; t < nthreads; t++)
            {
                for (RenderItem &it : plan[t].r)
                {
                    igris_f32toa(it.f, b, (int8_t)it.prec), it.seq32 = b;
                    igris_f64toa(it.d, b, (int8_t)it.prec), it.seq64 = b;
                    igris_ftoa(it.d, b, (int8_t)it.prec), it.seqf = b;
                }
                for (ParseItem &it : plan[t].p)
                {
                    const char *s = it.text.c_str();
                    it.seq[0] = (double)igris_atof32(s, nullptr);
                    it.seq[1] = igris_atof64(s, nullptr);
                    it.seq[2] = igris_strtod(s, nullptr);
                    it.seq[3] = igc_strtod(s, nullptr);
                    it.seq[4] = igc_atof(s);
                }
            }
        });
    if (mask < 0)
        vf::fail(mask == -2 ? "concurrent:hang" : "concurrent:child-died", "mt_run returned %d with %d threads", mask, nthreads);
    for (int b = 0; b < 5; b++)
        if (mask & (1 << b))
        {
            char key[120];
            snprintf(key, sizeof key, "concurrent:%s:!=reference", GNAME[b]);
            vf::fail(key, "%d threads in a fresh process (%s): %s left its tolerances / differed from the sequential result while other conversions ran in parallel (mask %#x)",
                     nthreads, with_prelude ? "after a sequential prelude" : "first use", GNAME[b], mask);
        }
    if (with_prelude)
        VF_OK("concurrent == sequential result of the same process, exactly (2..4 threads, TSan watching)");
    else
        VF_OK("concurrent first use stays within the sequential tolerances (2..4 threads, TSan watching)");
    vf::count_case(vf::mix(idx, vf::seed()), true);
    if (vf::want_sample())
        vf::sample("concurrent: fresh process, %d threads, f32toa/f64toa/ftoa + atof32/atof64/strtod/compat strtod/atof, prelude=%d", nthreads, (int)with_prelude);
}
VF_SUITE(concurrent, mt_count, mt_case)

extern "C" void vf_setup()
{
    vf::require("concurrent == sequential result of the same process, exactly (2..4 threads, TSan watching)");
    vf::require("concurrent first use stays within the sequential tolerances (2..4 threads, TSan watching)");
}
