#!/usr/bin/env python3
"""Regenerates /verif/MANIFEST.json from harness/<ID>/units.json (fields: manifest.text, manifest.note, manifest.technique)."""
import json, os, subprocess
V = os.path.dirname(os.path.dirname(os.path.abspath(__file__)))
props = [json.loads(l) for l in open(os.path.join(V, "properties.jsonl"))]
checks, na = [], []
integrated = set(open(os.path.join(V, "tools", "integrated.txt")).read().split())
for p in props:
    pid = p["id"]
    cfgp = os.path.join(V, "harness", pid, "units.json")
    if pid in integrated and os.path.exists(cfgp) and json.load(open(cfgp)).get("manifest"):
        m = json.load(open(cfgp))["manifest"]
        checks.append({
            "property_id": pid,
            "quick_cmd": "./check %s --tier quick" % pid,
            "thorough_cmd": "./check %s --tier thorough" % pid,
            "evidence_file": "evidence/%s.json" % pid,
            "replay_cmd_template": "./check %s --replay {path}" % pid,
            "engine": "vf",
            "level_claimed": {"category": "exploration", "text": m["text"], "design_ref": "DESIGN.md §3 " + pid},
            "level_note": m["note"],
            "technique": m["technique"],
        })
    else:
        na.append({"property_id": pid, "reason": "check not built yet in this round (work in progress; see DESIGN.md Appendix B) - not a claim that the technique cannot apply"})
hooks = json.load(open(os.path.join(V, "tools", "hooks.json")))
man = {
    "version": 1,
    "setup_cmd": "python3 -c \"import json;json.load(open('MANIFEST.json'))\" && g++ --version >/dev/null",
    "hooks": hooks,
    "engines": [{"name": "vf", "path": "check", "serves_properties": [c["property_id"] for c in checks],
                 "kind_free_text": "python3 driver that compiles harness/<ID>/*.cpp together with the anchored /repo sources (gcc 12, ASan+UBSan or TSan, -DIGRIS_VERIF), runs the cases in 16 forked workers under a watchdog, matches monitor/sanitizer reports against known_findings.json and writes evidence/<ID>.json"}],
    "checks": checks,
    "notes": "Runtime monitoring and sanitizers only. Every check rebuilds from /repo's working tree on each run. See DESIGN.md.",
    "not_applicable": na,
}
json.dump(man, open(os.path.join(V, "MANIFEST.json"), "w"), indent=1)
print("MANIFEST: %d checks, %d not yet claimed" % (len(checks), len(na)))
