#!/usr/bin/env python3
"""prints the prompt for an independent breaking-change sub-agent: property text only, nothing from /verif."""
import json, sys
import glob, os
pid, n = sys.argv[1], int(sys.argv[2]) if len(sys.argv) > 2 else 3
rnd = sys.argv[3] if len(sys.argv) > 3 else ""          # "" = first round, "2" = second round ...
prev = []
if rnd:
    for mp in sorted(glob.glob("/verif/seeded/%s-*/meta.json" % pid)):
        prev.append("  - " + json.load(open(mp)).get("summary", "")[:300].replace("\n", " "))
p = [json.loads(l) for l in open('/verif/properties.jsonl') if json.loads(l)['id'] == pid][0]
wt = "/tmp/sw%s-%s" % (rnd, pid)
sd = "/tmp/seed%s-%s" % (rnd, pid)
extra = ""
if prev:
    extra = "\nChanges of this kind were already produced by others - yours must be DIFFERENT in routine and in trigger, and preferably harder to notice (correct results on small / short / common inputs, wrong only for rare sizes, long or unusual histories, particular states, second-order effects such as lifetime, aliasing, bounds or state left behind for a later call):\n" + "\n".join(prev) + "\n"
print(f"""You are testing how well a verification effort for the C/C++ library mirmik/igris can detect realistic regressions. You work ONLY inside your own scratch git worktree {wt} (a checkout of the library; create nothing elsewhere except under {sd}/). Do NOT read or list anything under /verif, and do not touch /repo.

The property that users of the library rely on:
  Title: {p['title']}
  Statement: {p['statement']}
  Quantified over: {p['quantifier']['text']}
  Code it is anchored in: {', '.join(p['anchors']['files'])}
  Mechanisms meant to make it hold: {'; '.join(m['name'] + ' (' + m['where'] + ')' for m in p['anchors']['mechanism'])}

{extra}
Task: produce {n} DIFFERENT changes to the library source in {wt}, each of which
  (1) breaks the property above (for some input / history / schedule the statement is false with the change),
  (2) still compiles, and the library's existing test suite still passes with it
      (build+test: cmake -G Ninja -S {wt} -B {wt}/_build -DCMAKE_BUILD_TYPE=RelWithDebInfo -DCMAKE_C_FLAGS=-Wno-error -DCMAKE_CXX_FLAGS=-Wno-error >/dev/null && cmake --build {wt}/_build >/dev/null && ctest --test-dir {wt}/_build ; note that parts of the anchored code are header-only or not compiled by CMake at all — such code you must at least compile yourself in your demonstration),
  (3) looks like a plausible maintenance edit or refactoring slip (an optimisation, a 'simplification', a changed bound, reordered statements, a changed type, two cooperating sites that each look fine alone) — not sabotage with magic constants,
  (4) needs something SPECIFIC to manifest: a particular input class, length, alignment, multi-step sequence of operations, a particular interleaving or fault point — NOT something ordinary use would expose at once. Vary the kind of trigger across your {n} changes and touch different routines/mechanisms of the property.
For each change k = 1..{n} write the directory {sd}/k/ containing:
  patch.diff   — `git diff` of the change against the worktree's HEAD (only library files; apply-able with `git apply`)
  demo.cpp (or demo.c / demo.sh + sources) — a small self-contained program, with the exact compile command in a comment on its first line (use -I{wt}; compile the needed library .c/.cpp files directly), that exits non-zero / fails with the change applied and exits 0 without it. You MUST actually run it both ways and confirm.
  meta.json    — {{"property": "{pid}", "summary": "...what was changed...", "needs": "...what it takes to manifest...", "ran": "...commands you ran and their outcome with/without the change, incl. the ctest result with the change..."}}
After writing each patch, revert the worktree (`git -C {wt} checkout -- .`) so every patch is independent and against HEAD. Always run programs under `timeout 60`. Finish with a short report (≤ 25 lines): one line per change (what, trigger, demo result with/without, ctest result). Do not paste code in the report.""")
