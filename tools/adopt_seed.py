#!/usr/bin/env python3
"""tools/adopt_seed.py <ID> <k> — adopt /tmp/seed-<ID>/<k>/ as /verif/seeded/<ID>-s<k>/ after confirming it myself:
demo passes on HEAD and fails with the change, baseline suite passes with the change (tools/confirm_seed.sh in the
scratch worktree /tmp/sw-<ID>), then run the property's quick check against it (tools/selftest.py) and record all of that
in meta.json. Paths in the demo are normalised: $WT = a checkout of the library, ./ = the seeded directory."""
import json, os, re, shutil, subprocess, sys
pid, k = sys.argv[1], sys.argv[2]
rnd = sys.argv[3] if len(sys.argv) > 3 else ""
src, wt = "/tmp/seed%s-%s/%s" % (rnd, pid, k), "/tmp/sw%s-%s" % (rnd, pid)
name = "%s-%ss%s" % (pid, ("r%s" % rnd) if rnd else "", k)
dst = "/verif/seeded/" + name
shutil.rmtree(dst, ignore_errors=True)
shutil.copytree(src, dst)
for f in os.listdir(dst):
    p = os.path.join(dst, f)
    if f == "patch.diff" or not os.path.isfile(p):
        continue
    try:
        t = open(p).read()
    except UnicodeDecodeError:
        os.remove(p); continue          # stray binaries
    t = t.replace(src + "/", "./").replace(src, ".").replace(wt, "$WT")
    open(p, "w").write(t)
for f in os.listdir(dst):                 # drop compiled leftovers
    p = os.path.join(dst, f)
    if os.path.isfile(p) and os.access(p, os.X_OK) and not f.endswith(".sh"):
        os.remove(p)
r = subprocess.run(["/verif/tools/confirm_seed.sh", dst, wt], stdout=subprocess.PIPE, stderr=subprocess.STDOUT, text=True,
                   env=dict(os.environ, WT=wt))
print(r.stdout.strip())
for f in os.listdir(dst):                 # drop what the demo built
    p = os.path.join(dst, f)
    if os.path.isfile(p) and os.access(p, os.X_OK) and not f.endswith(".sh"):
        os.remove(p)
confirmed = r.returncode == 0
meta = json.load(open(os.path.join(dst, "meta.json")))
meta["confirmed_by_integrator"] = {"ok": confirmed, "how": "tools/confirm_seed.sh: demo (first line of demo.* = compile&&run) on the worktree HEAD, "
                                   "again with patch.diff applied, then cmake --build + ctest of the 82-case suite with the patch", "output": r.stdout.strip()}
json.dump(meta, open(os.path.join(dst, "meta.json"), "w"), indent=1)
if not confirmed:
    print("NOT CONFIRMED - not adopting"); shutil.rmtree(dst); sys.exit(1)
r = subprocess.run(["/verif/tools/selftest.py", "seeded/" + name], stdout=subprocess.PIPE, stderr=subprocess.STDOUT, text=True, cwd="/verif")
print(r.stdout.strip())
res = [x for x in json.load(open("/verif/selftest_results.json")) if x["name"] == "seeded/" + name]
meta["check_result"] = {"cmd": "VERIF_REPO=<scratch worktree with patch> ./check %s --tier quick" % pid, "result": res[0].get("result") if res else "?",
                        "keys": res[0].get("keys") if res else []}
json.dump(meta, open(os.path.join(dst, "meta.json"), "w"), indent=1)
