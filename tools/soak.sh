#!/bin/bash
# tools/soak.sh [tier] ID...   — every check must stay silent (exit 0) on /repo for VERIF_SEED 1..5
tier=quick; if [ "$1" = quick ] || [ "$1" = thorough ]; then tier=$1; shift; fi
rc=0
for id in "$@"; do for s in ${SOAK_SEEDS:-1 2 3 4 5}; do
  out=$(VERIF_SEED=$s VERIF_NO_COVERAGE=1 /verif/check $id --tier $tier 2>&1); e=$?
  echo "$id seed=$s exit=$e $(echo "$out" | grep -E "^$id " | tail -1)"
  if [ $e != 0 ]; then rc=1; echo "$out" | grep -E "VIOLATION|key=|INCONCLUSIVE|check:" | head -8; fi
done; done
exit $rc
