#!/usr/bin/env python3
"""tools/integrate.py <GROUP> <ID>...  — cherry-pick branch fix-<GROUP> onto /repo's main (one commit per fix, linear
history), remap the commit ids recorded in harness/<ID>/findings.json, run the baseline suite."""
import json, os, re, subprocess, sys
grp, ids = sys.argv[1], sys.argv[2:]
def git(*a, check=True):
    r = subprocess.run(["git", "-C", "/repo"] + list(a), stdout=subprocess.PIPE, stderr=subprocess.STDOUT, text=True)
    if check and r.returncode:
        print(r.stdout); sys.exit("git %s failed" % " ".join(a))
    return r.stdout.strip()
if git("status", "--porcelain", "--untracked-files=no"):
    sys.exit("/repo has uncommitted changes")
commits = git("rev-list", "--reverse", "main..fix-" + grp).split()
mapping = {}
for c in commits:
    subj = git("log", "-1", "--format=%s", c)
    r = subprocess.run(["git", "-C", "/repo", "cherry-pick", c], stdout=subprocess.PIPE, stderr=subprocess.STDOUT, text=True)
    if r.returncode:
        print(r.stdout); sys.exit("cherry-pick of %s (%s) failed - resolve by hand (git -C /repo cherry-pick --continue) and re-run" % (c[:7], subj))
    new = git("rev-parse", "HEAD")
    mapping[c] = new
    print("%s -> %s  %s" % (c[:7], new[:7], subj))
for pid in ids:
    fp = "/verif/harness/%s/findings.json" % pid
    if not os.path.exists(fp):
        continue
    t = open(fp).read()
    for old, new in mapping.items():
        for n in (40, 12, 10, 9, 8, 7):
            t = t.replace(old[:n], new[:7] if n < 40 else new)
    json.loads(t)
    open(fp, "w").write(t)
r = subprocess.run(["/verif/tools/baseline.sh"], stdout=subprocess.PIPE, stderr=subprocess.STDOUT, text=True)
print(r.stdout.strip().splitlines()[-3:] if r.stdout.strip() else r.returncode)
sys.exit(r.returncode)
