#!/bin/sh
# Runs the repository's own pinned suite with the IGRIS_VERIF guard OFF (the CMake build never defines it).
set -e
if [ ! -f /repo/_build/build.ninja ] && [ ! -f /repo/_build/Makefile ]; then
  cmake -G Ninja -B /repo/_build -S /repo -DCMAKE_BUILD_TYPE=RelWithDebInfo >/dev/null
fi
cmake --build /repo/_build >/dev/null
ctest --test-dir /repo/_build -j8 --timeout 900 "$@"
