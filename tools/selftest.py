#!/usr/bin/env python3
"""selftest — apply every mutant / seeded change to a scratch worktree of /repo and confirm that the
property's check fires (exit 1 + VIOLATION) there, while it stays silent on /repo itself.

  tools/selftest.py [--tier quick|thorough] [--jobs N] [ID|seeded-name ...]

Mutants:  harness/<ID>/mutants/*.patch   (written with the harness)
          seeded/<name>/patch.diff       (independent changes from sub-agents; meta.json names the property)
Nothing is ever applied to /repo. Results: selftest_results.json (+ table on stdout).
"""
import concurrent.futures as cf, glob, json, os, subprocess, sys, time, shutil
V = os.path.dirname(os.path.dirname(os.path.abspath(__file__)))

def sh(cmd, **kw):
    return subprocess.run(cmd, stdout=subprocess.PIPE, stderr=subprocess.STDOUT, text=True, **kw)

def collect(filters):
    items = []
    for p in sorted(glob.glob(os.path.join(V, "harness", "*", "mutants", "*.patch"))):
        pid = p.split(os.sep)[-3]
        items.append({"name": "%s/%s" % (pid, os.path.basename(p)[:-6]), "property": pid, "patch": p, "kind": "mutant"})
    for d in sorted(glob.glob(os.path.join(V, "seeded", "*"))):
        mp = os.path.join(d, "meta.json")
        if os.path.exists(mp) and os.path.exists(os.path.join(d, "patch.diff")):
            m = json.load(open(mp))
            items.append({"name": "seeded/" + os.path.basename(d), "property": m.get("check_with", m["property"]), "seeded_for": m["property"], "patch": os.path.join(d, "patch.diff"), "kind": "seeded"})
    if filters:
        items = [i for i in items if any(f == i["property"] or f in i["name"] for f in filters)]
    return items

def one(item, n, tier, workers):
    wt = "/tmp/vf-st-%d-%d" % (os.getpid(), n)
    t0 = time.time()
    res = dict(item)
    try:
        r = sh(["git", "-C", "/repo", "worktree", "add", "--detach", wt, "HEAD"])
        if r.returncode:
            res.update(result="error", note=r.stdout[-300:]); return res
        r = sh(["git", "-C", wt, "apply", "--whitespace=nowarn", item["patch"]])
        if r.returncode:
            res.update(result="patch-does-not-apply", note=r.stdout[-300:]); return res
        env = dict(os.environ, VERIF_REPO=wt, VERIF_BUILD_TAG="-st%d" % n, VERIF_WORKERS=str(workers), VERIF_NO_COVERAGE="1")
        r = sh([os.path.join(V, "check"), item["property"], "--tier", tier], env=env, cwd=V)
        keys = [l.strip()[4:] for l in r.stdout.splitlines() if l.strip().startswith("key=")]
        res.update(exit=r.returncode, keys=keys[:6], wall_s=round(time.time() - t0, 1))
        res["result"] = "caught" if r.returncode == 1 and "VIOLATION property=" in r.stdout else ("MISSED" if r.returncode == 0 else "error")
        if res["result"] == "error":
            res["note"] = r.stdout[-400:]
    finally:
        sh(["git", "-C", "/repo", "worktree", "remove", "--force", wt])
        shutil.rmtree(wt, ignore_errors=True)
        for f in glob.glob(os.path.join(V, "replays", "%s-st%d-*.json" % (item["property"], n))):
            os.remove(f)
    return res

def main():
    args = sys.argv[1:]
    tier, jobs, filters = "quick", 3, []
    i = 0
    while i < len(args):
        if args[i] == "--tier": tier = args[i+1]; i += 2
        elif args[i] == "--jobs": jobs = int(args[i+1]); i += 2
        else: filters.append(args[i]); i += 1
    items = collect(filters)
    workers = max(4, 16 // jobs)
    with cf.ThreadPoolExecutor(jobs) as ex:
        results = list(ex.map(lambda t: one(t[1], t[0], tier, workers), enumerate(items)))
    for r in results:
        print("%-8s %-50s %-6s %s" % (r.get("result"), r["name"], r.get("wall_s", ""), "; ".join(r.get("keys", []))[:110] or r.get("note", "")[:110]))
    missed = [r for r in results if r.get("result") != "caught"]
    print("selftest: %d changes, %d caught, %d not caught" % (len(results), len(results) - len(missed), len(missed)))
    outp = os.path.join(V, "selftest_results.json")
    import fcntl
    with open(outp + ".lock", "w") as lk:          # several selftests may finish at the same time
        fcntl.flock(lk, fcntl.LOCK_EX)
        old = {}
        if os.path.exists(outp):
            old = {r["name"]: r for r in json.load(open(outp))}
        for r in results:
            r.pop("patch", None)
            old[r["name"]] = r
        json.dump(sorted(old.values(), key=lambda r: r["name"]), open(outp, "w"), indent=1)
    sys.exit(1 if missed else 0)

main()
