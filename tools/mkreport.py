#!/usr/bin/env python3
"""prints markdown for DESIGN.md: (1) findings per property from known_findings.json + harness/*/findings.json,
(2) which check catches which mutant / seeded change from selftest_results.json and seeded/*/meta.json."""
import glob, json, os, collections
V = os.path.dirname(os.path.dirname(os.path.abspath(__file__)))
fs = []
for p in [V + "/known_findings.json"] + sorted(glob.glob(V + "/harness/*/findings.json")):
    fs += json.load(open(p))
by = collections.OrderedDict()
for f in fs:
    by.setdefault(f["property"], {}).setdefault((f.get("status"), f.get("commit", "")), []).append(f)
print("### Findings by property\n")
for pid in sorted(by):
    print("**%s**" % pid)
    for (st, c), lst in sorted(by[pid].items(), key=lambda x: (x[0][0], x[0][1])):
        what = lst[0].get("what", "")
        what = what.split(" ", 3)[-1] if what.startswith("fixed:") else what
        keys = ", ".join("`%s`" % x["key"] for x in lst[:4]) + (" (+%d more keys)" % (len(lst) - 4) if len(lst) > 4 else "")
        print("- %s %s — %s  \n  keys: %s" % (st, c, what[:300], keys))
    print()
print("### Which check catches which change\n")
print("| change | property | kind | result (quick tier) | first keys |")
print("|---|---|---|---|---|")
res = json.load(open(V + "/selftest_results.json")) if os.path.exists(V + "/selftest_results.json") else []
for r in res:
    print("| %s | %s | %s | %s | %s |" % (r["name"], r["property"], r.get("kind", ""), r.get("result"), "; ".join("`%s`" % k for k in r.get("keys", [])[:2])))
