#!/usr/bin/env python3
"""Consolidates harness/<ID>/findings.json (written while each harness was built) into the single committed
known-findings file /verif/known_findings.json and removes the per-property files. The driver reads known_findings.json
(and still accepts per-property files should a later round add one)."""
import glob, json, os
V = os.path.dirname(os.path.dirname(os.path.abspath(__file__)))
allf = json.load(open(V + "/known_findings.json"))
seen = {(f["property"], f["key"], f.get("status")) for f in allf}
for p in sorted(glob.glob(V + "/harness/*/findings.json")):
    for f in json.load(open(p)):
        k = (f["property"], f["key"], f.get("status"))
        if k not in seen:
            seen.add(k)
            allf.append(f)
    os.remove(p)
allf.sort(key=lambda f: (f["property"], f.get("status") != "open", f.get("commit", ""), f["key"]))
json.dump(allf, open(V + "/known_findings.json", "w"), indent=1)
print("known_findings.json: %d entries (%d open)" % (len(allf), sum(1 for f in allf if f.get("status") == "open")))
