#!/bin/bash
# tools/confirm_seed.sh <seeded-dir> <worktree>  — confirm a seeded change independently:
# demo passes on HEAD, fails with the patch; baseline suite still passes with the patch.
# The demo's first line holds its compile command (written against <worktree>).
d=$1; wt=$2
if [ -f $d/demo.sh ]; then cmd="sh ./demo.sh"; else cmd=$(head -1 $d/demo.cpp 2>/dev/null || head -1 $d/demo.c); cmd=${cmd#// }; cmd=${cmd#//}; cmd=${cmd#/\* }; cmd=${cmd% \*/}; fi; export WT=$wt
git -C $wt checkout -q -- . 
# the first line is "compile && run" (paths as the author used them); its exit status is the demo's verdict
# if the line only compiles (no "&&"), the -o target is run afterwards
run_demo(){ (cd $d && eval "$cmd" >/tmp/confirm_run.log 2>&1); rc=$?; [ $rc != 0 ] && return $rc
  case "$cmd" in *"&&"*|"sh ./demo.sh") return 0;; esac
  exe=$(echo "$cmd" | sed -n 's/.*-o *\([^ ]*\).*/\1/p'); (cd $d && timeout 120 $exe >>/tmp/confirm_run.log 2>&1); return $?; }
run_demo; a=$?
git -C $wt apply $d/patch.diff || { echo "patch does not apply"; exit 2; }
run_demo; b=$?
if [ ! -d $wt/_build ]; then cmake -G Ninja -S $wt -B $wt/_build -DCMAKE_BUILD_TYPE=RelWithDebInfo -DCMAKE_C_FLAGS=-Wno-error -DCMAKE_CXX_FLAGS=-Wno-error >/dev/null; fi
cmake --build $wt/_build >/dev/null 2>&1; t=$(ctest --test-dir $wt/_build 2>&1 | grep -c "100% tests passed")
git -C $wt checkout -q -- .
echo "$(basename $d): demo on HEAD exit=$a, with change exit=$b, baseline suite with change: $([ $t = 1 ] && echo pass || echo FAIL)"
[ $a = 0 ] && [ $b != 0 ] && [ $t = 1 ]
